#!/bin/bash
# usage: tools/process_seed.sh <seed_out_dir> <ID> <PROP>  -- confirm, keep, run the property's check against it
tools/confirm_seed.sh "$1" "$2" | tail -1
[ -d /verif/seeded/$2 ] && tools/try_seed.sh /verif/seeded/$2/patch.diff $3 | tail -2

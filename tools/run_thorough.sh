#!/bin/bash
for p in C17 C11 C09 C13 C14 C16 C18 C04 C10 C06 C03 C05 C08 C01 C02 C15; do
  s=$(date +%s); ./check $p --tier thorough --no-evidence 2>&1 | tail -1 | cut -c1-260; echo "   $p thorough took $(( $(date +%s) - s )) s"
done

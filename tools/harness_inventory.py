#!/venv/bin/python
"""Prints a markdown inventory of the registered harnesses (per property: name, number of jobs per tier, first
sentence of the docstring, bounds).  Run: PYTHONPATH=/verif:/verif/.deps:/repo /venv/bin/python tools/harness_inventory.py"""
import importlib, os, sys, glob, warnings
warnings.simplefilter('ignore')
sys.path[:0] = ['/verif', '/verif/.deps', '/repo']
from symx.api import REGISTRY

props = sorted(set(os.path.basename(p)[:3] for p in glob.glob('/verif/harness/C*.py')))
for prop in props:
    for p in sorted(glob.glob('/verif/harness/%s*.py' % prop)):
        importlib.import_module('harness.' + os.path.basename(p)[:-3])
for prop in props:
    print('**%s**\n' % prop)
    for (pr, name), h in REGISTRY.items():
        if pr != prop:
            continue
        tp = getattr(h, 'tier_params', None)
        nq = len(tp['quick']) if tp else len(h.params)
        nt = len(tp['thorough']) if tp else len(h.params)
        doc = ' '.join((h.doc or '').split())
        doc = doc.split('. ')[0][:260]
        b = '; '.join('%s: %s' % (k, ' '.join(str(v).split())) for k, v in h.bounds.items())
        print('* `%s` (%d / %d jobs) - %s%s' % (name, nq, nt, doc or '(see bounds)', ('  \n  *bounds* - ' + b[:420]) if b else ''))
    print()

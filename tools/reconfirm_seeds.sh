#!/bin/bash
# usage: tools/reconfirm_seeds.sh [--baseline ID ...]
# Re-confirms every kept seed against /repo HEAD in a scratch worktree: the patch applies, the demo passes on the clean tree and
# fails with the patch.  Seeds named after --baseline also re-run the 696 baseline tests with the patch applied.
cd /verif
BASE=" $* "
for d in seeded/*/; do
  id=$(basename $d); WT=/tmp/reconf_$id
  git -C /repo worktree add -q "$WT" HEAD || { echo "$id worktree failed"; continue; }
  ( cd "$WT"
    PYTHONPATH=$WT timeout 600 /venv/bin/python /verif/$d/demo.py >/dev/null 2>&1; clean=$?
    if git apply /verif/$d/patch.diff 2>/dev/null; then
      PYTHONPATH=$WT timeout 600 /venv/bin/python /verif/$d/demo.py >/dev/null 2>&1; patched=$?
      b=""
      case "$BASE" in *" $id "*) b=$(/verif/tools/baseline_check.py "$WT" | head -1);; esac
      echo "$id clean=$clean patched=$patched $b"
    else
      echo "$id PATCH-DOES-NOT-APPLY clean=$clean"
    fi )
  git -C /repo worktree remove --force "$WT"
done

#!/usr/bin/env python3
import json, glob, sys, collections
prop = sys.argv[1]
c = collections.Counter(); ex = {}
for f in glob.glob('/verif/replays/%s/*.json' % prop):
    r = json.load(open(f)); n = r['native_outcome']
    key = (r['harness'], n.get('exc'), n.get('site'), (n.get('msg') or '')[:60] if n.get('exc') else 'prop-false')
    c[key] += 1; ex.setdefault(key, (r['param'], r['inputs']['vars']))
for k, v in sorted(c.items(), key=lambda x: -x[1]):
    print(v, k, ex[k])

#!/bin/bash
# runs every kept seed against the check of its property (4 at a time); prints caught (exit=1) / missed (exit=0)
cd /verif
one() {
  id=$1; prop=${id:0:3}
  if grep -q '"status": "neutralised"' seeded/$id/meta.json; then echo "$id neutralised (no longer breaks the property on the repaired tree)"; return; fi
  out=$(tools/try_seed.sh /verif/seeded/$id/patch.diff $prop --procs 6 2>&1 | tail -1)
  echo "$id $out"
}
export -f one
ls seeded | xargs -P 3 -I{} bash -c 'one {}'

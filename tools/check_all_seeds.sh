#!/bin/bash
# runs every kept seed against the check of its property; prints caught/missed
cd /verif
for d in seeded/*/; do
  id=$(basename $d); prop=${id:0:3}
  if grep -q '"status": "neutralised"' $d/meta.json; then echo "$id neutralised (no longer breaks the property on the repaired tree)"; continue; fi
  out=$(tools/try_seed.sh /verif/seeded/$id/patch.diff $prop 2>&1 | tail -1)
  echo "$id $out"
done

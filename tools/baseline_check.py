#!/usr/bin/env python3
"""Runs the pinned baseline suite in /repo (or $1) and reports which of the 696 stable tests
do not pass.  Usage: tools/baseline_check.py [repo_dir]"""
import json, subprocess, sys, tempfile, os, xml.etree.ElementTree as ET
repo = sys.argv[1] if len(sys.argv) > 1 else '/repo'
base = json.load(open('/root/.vp/BASELINE.json'))
want = set(base['stable_pass'])
fd, path = tempfile.mkstemp(suffix='.xml'); os.close(fd)
env = dict(os.environ); env['PYTHONPATH'] = repo
subprocess.run(['/venv/bin/python', '-m', 'pytest', '-q', '-p', 'no:cacheprovider', '--timeout=900',
                '--continue-on-collection-errors', '--junitxml=' + path], cwd=repo, env=env,
               stdout=subprocess.DEVNULL, stderr=subprocess.DEVNULL)
passed = set()
for tc in ET.parse(path).getroot().iter('testcase'):
    if not any(ch.tag in ('failure', 'error', 'skipped') for ch in tc):
        passed.add('%s::%s' % (tc.get('classname'), tc.get('name')))
os.unlink(path)
missing = sorted(want - passed)
print('baseline: %d/%d stable tests pass' % (len(want & passed), len(want)))
for m in missing[:40]:
    print('  NOT PASSING:', m)
sys.exit(1 if missing else 0)

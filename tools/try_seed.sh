#!/bin/bash
# usage: tools/try_seed.sh <patch.diff> <PROP> [extra check args]   -- applies the patch to /repo, runs the check, always reverts
P="$1"; shift; PROP="$1"; shift
cd /repo || exit 9
if ! git diff --quiet; then echo "/repo not clean"; exit 9; fi
git apply "$P" || { echo "patch does not apply"; exit 9; }
cd /verif && ./check "$PROP" --no-evidence "$@" 2>&1 | grep -v "^  \|^HARNESS-ERROR\|^MODEL-MISMATCH\|^INCONCLUSIVE" | cut -c1-300 | tail -8
rc=${PIPESTATUS[0]}
git -C /repo checkout -- .
echo "exit=$rc"

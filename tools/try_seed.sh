#!/bin/bash
# usage: tools/try_seed.sh <patch.diff> <PROP> [extra check args]
# Runs the property's check against a scratch worktree of /repo HEAD with the patch applied (SYMX_REPO), then removes
# the worktree.  (Equivalent to `git -C /repo apply`, run, `git -C /repo checkout -- .`, but safe while other runs use /repo.)
P="$1"; shift; PROP="$1"; shift
WT=/tmp/try_$$_$PROP
git -C /repo worktree add -q "$WT" HEAD || exit 9
git -C "$WT" apply "$P" || { echo "patch does not apply"; git -C /repo worktree remove --force "$WT"; exit 9; }
cd /verif && SYMX_REPO="$WT" ./check "$PROP" --no-evidence "$@" 2>&1 | grep -v "^  \|^HARNESS-ERROR\|^MODEL-MISMATCH\|^INCONCLUSIVE" | cut -c1-300 | tail -8
rc=${PIPESTATUS[0]}
git -C /repo worktree remove --force "$WT"
echo "exit=$rc"

#!/bin/bash
# usage: tools/confirm_seed.sh <seed_out_dir> <ID>   (e.g. /tmp/seed/C08/_seed_out/C08A C08A)
# Confirms in a fresh scratch worktree: patch applies, demo fails with it and passes without, the 696 baseline tests pass.
SRC="$1"; ID="$2"; WT=/tmp/confirm_$ID
git -C /repo worktree add -q "$WT" HEAD || exit 9
cd "$WT"
PYTHONPATH=$WT /venv/bin/python "$SRC/demo.py" >/dev/null 2>&1; clean=$?
git apply "$SRC/patch.diff" || { echo "patch does not apply to HEAD"; git -C /repo worktree remove --force "$WT"; exit 9; }
PYTHONPATH=$WT /venv/bin/python "$SRC/demo.py" >/dev/null 2>&1; patched=$?
base=$(/verif/tools/baseline_check.py "$WT" | head -1)
cd /; git -C /repo worktree remove --force "$WT"
echo "$ID: demo clean exit=$clean patched exit=$patched; $base"
if [ "$clean" = 0 ] && [ "$patched" != 0 ] && echo "$base" | grep -q "696/696"; then
  mkdir -p /verif/seeded/$ID && cp "$SRC/patch.diff" "$SRC/demo.py" /verif/seeded/$ID/
  /venv/bin/python - "$SRC/meta.json" "/verif/seeded/$ID/meta.json" "$clean" "$patched" "$base" <<'PY'
import json, sys
m = json.load(open(sys.argv[1]))
m['confirmed'] = {'demo_exit_clean_tree': int(sys.argv[3]), 'demo_exit_with_patch': int(sys.argv[4]), 'baseline': sys.argv[5],
                  'how': 'tools/confirm_seed.sh in a fresh scratch worktree of /repo HEAD (removed afterwards)'}
json.dump(m, open(sys.argv[2], 'w'), indent=1)
PY
  echo "kept as /verif/seeded/$ID"
else
  echo "NOT kept"
fi

"""The single interception point of the instrumented code (`__sx_call__` & friends) and the
table of executable models for builtins / stdlib callees that may receive a proxy."""
import re
import math
import builtins
import collections
import logging
import decimal
import datetime as _dt
import z3

from .core import (E, Sym, SBool, SInt, Unsupported, PathAbort, BoundExceeded, zint, zb,
                   zbool, concretize)
from .strs import (CStr, CMatch, render_int, render_int_padded, parse_int, re_match, re_search,
                   re_sub, re_findall, re_finditer, re_split, _cz)
from . import stdmodels as sm

_isinstance = builtins.isinstance
_type = builtins.type
_len = builtins.len

PASS_PREFIXES = ('spyne', 'harness', 'symx', 'universes')


class SBlob(Sym):
    """opaque byte chunk with symbolic length"""
    __slots__ = ('n',)
    _pytype = bytes

    def __init__(self, n):
        self.n = n if _isinstance(n, SInt) else SInt(n)

    def __bool__(self):
        return bool(self.n > 0)

    def __len__(self):
        raise Unsupported('len() of SBlob through the C protocol')

    def __hash__(self):
        raise Unsupported('hash of SBlob')


class SDict(dict):
    """dict that additionally holds symbolic keys in an association list; behaves exactly
    like dict while no symbolic key has been stored."""

    def __init__(self, *a, **k):
        dict.__init__(self)
        self._sk = []   # symbolic keys
        self._sv = []
        self._factory = None
        if a or k:
            self.update(*a, **k)

    def _find(self, k):
        for i, kk in enumerate(self._sk):
            if _same_key(kk, k):
                return ('s', i)
        for kk in dict.keys(self):
            if _same_key(kk, k):
                return ('c', kk)
        return None

    def __getitem__(self, k):
        if not _symkey(k):
            if not self._sk:
                try:
                    return dict.__getitem__(self, k)
                except KeyError:
                    return self.__missing__(k)
            f = self._find_conc(k)
        else:
            f = self._find(k)
        if f is None:
            return self.__missing__(k)
        return self._sv[f[1]] if f[0] == 's' else dict.__getitem__(self, f[1])

    def _find_conc(self, k):
        if dict.__contains__(self, k):
            return ('c', k)
        for i, kk in enumerate(self._sk):
            if _same_key(kk, k):
                return ('s', i)
        return None

    def __missing__(self, k):
        if self._factory is None:
            raise KeyError(k)
        v = self._factory()
        self[k] = v
        return v

    def __setitem__(self, k, v):
        if not _symkey(k):
            if self._sk:
                f = self._find_conc(k)
                if f is not None and f[0] == 's':
                    self._sv[f[1]] = v
                    return
            dict.__setitem__(self, k, v)
            return
        f = self._find(k)
        if f is None:
            self._sk.append(k); self._sv.append(v)
        elif f[0] == 's':
            self._sv[f[1]] = v
        else:
            dict.__setitem__(self, f[1], v)

    def __delitem__(self, k):
        f = self._find(k) if _symkey(k) else self._find_conc(k)
        if f is None:
            raise KeyError(k)
        if f[0] == 's':
            del self._sk[f[1]]; del self._sv[f[1]]
        else:
            dict.__delitem__(self, f[1])

    def __contains__(self, k):
        if not _symkey(k) and not self._sk:
            return dict.__contains__(self, k)
        return (self._find(k) if _symkey(k) else self._find_conc(k)) is not None

    def get(self, k, d=None):
        f = self._find(k) if _symkey(k) else self._find_conc(k)
        if f is None:
            return d
        return self._sv[f[1]] if f[0] == 's' else dict.__getitem__(self, f[1])

    def setdefault(self, k, d=None):
        f = self._find(k) if _symkey(k) else self._find_conc(k)
        if f is None:
            self[k] = d
            return d
        return self._sv[f[1]] if f[0] == 's' else dict.__getitem__(self, f[1])

    def pop(self, k, *d):
        f = self._find(k) if _symkey(k) else self._find_conc(k)
        if f is None:
            if d:
                return d[0]
            raise KeyError(k)
        if f[0] == 's':
            v = self._sv[f[1]]
            del self._sk[f[1]]; del self._sv[f[1]]
            return v
        return dict.pop(self, f[1])

    def update(self, *a, **k):
        for src in a:
            if hasattr(src, 'items'):
                src = src.items()
            for kk, vv in src:
                self[kk] = vv
        for kk, vv in k.items():
            self[kk] = vv

    def keys(self):
        return list(dict.keys(self)) + list(self._sk)

    def values(self):
        return list(dict.values(self)) + list(self._sv)

    def items(self):
        return list(dict.items(self)) + list(zip(self._sk, self._sv))

    def __iter__(self):
        return iter(self.keys())

    def __len__(self):
        return dict.__len__(self) + _len(self._sk)

    def __bool__(self):
        return _len(self) > 0

    def copy(self):
        r = SDict()
        r._factory = self._factory
        r.update(self)
        return r

    def __repr__(self):
        return 'SDict(%r + %r)' % (dict(dict.items(self)), list(zip(self._sk, self._sv)))


def _same_key(a, b):
    if _isinstance(a, CStr) or _isinstance(b, CStr):
        if not _isinstance(a, (CStr, str, bytes)) or not _isinstance(b, (CStr, str, bytes)):
            return False
        if _len(a) != _len(b):
            return False
    ta, tb = _type(a) is tuple, _type(b) is tuple
    if ta != tb:
        return False
    if ta:
        if _len(a) != _len(b):
            return False
        for x, y in zip(a, b):
            if not _same_key(x, y):
                return False
        return True
    if not _isinstance(a, Sym) and not _isinstance(b, Sym):
        return _type(a) is _type(b) and a == b if _isinstance(a, (str, bytes)) or _isinstance(b, (str, bytes)) else a == b
    r = (a == b)
    if _isinstance(r, SBool):
        return bool(r)
    return bool(r)


def sx_dict(*a, **k):
    return SDict(*a, **k)


def sx_defaultdict(factory=None, *a, **k):
    d = SDict(*a, **k)
    if factory is dict:
        factory = SDict
    d._factory = factory
    return d


def _symkey(k):
    if _isinstance(k, Sym):
        return True
    if _type(k) is tuple:
        for x in k:
            if _isinstance(x, Sym) or (_type(x) is tuple and _symkey(x)):
                return True
    return False


# ------------------------------------------------------------------ proxy detection
def _has_proxy(args, kw):
    for a in args:
        if _isinstance(a, Sym):
            return True
        if _type(a) in (list, tuple, collections.deque) and _len(a) <= 32:
            for b in a:
                if _isinstance(b, Sym):
                    return True
    if kw:
        for a in kw.values():
            if _isinstance(a, Sym):
                return True
    return False


def pytype_of(x):
    t = getattr(_type(x), '_pytype', None)
    if t is not None:
        return t
    if _isinstance(x, CStr):
        return bytes if x.is_bytes else str
    if _isinstance(x, SInt):
        return float if x.is_float else int
    if _isinstance(x, SBool):
        return bool
    return _type(x)


def m_isinstance(x, t):
    if _isinstance(x, Sym):
        base = pytype_of(x)
        ts = t if _isinstance(t, tuple) else (t,)
        for tt in ts:
            if _isinstance(tt, tuple):
                if m_isinstance(x, tt):
                    return True
            elif _isinstance(tt, _type) and issubclass(base, tt):
                return True
        return False
    return _isinstance(x, t)


def m_type(*a):
    if _len(a) == 1 and _isinstance(a[0], Sym):
        return pytype_of(a[0])
    return _type(*a)


def m_len(x):
    if _isinstance(x, CStr):
        return _len(x.c)
    if _isinstance(x, SBlob):
        return x.n
    return _len(x)


def m_str(x='', *a, **k):
    if k:
        a = a + tuple(k[n] for n in ('encoding', 'errors') if n in k) if 'encoding' in k else (('utf-8', k['errors']) if not a else a + (k['errors'],))
    if a:
        # str(bytes, encoding, errors)
        if _isinstance(x, CStr) and x.is_bytes:
            return x.decode(*a)
        raise Unsupported('str(x, encoding) on %r' % (_type(x),))
    if _isinstance(x, SInt):
        if x.is_float:
            raise Unsupported('str(float)')
        return render_int(x)
    if _isinstance(x, CStr):
        if x.is_bytes:
            raise Unsupported('str(bytes)')
        return x
    if _isinstance(x, SBool):
        return 'True' if bool(x) else 'False'
    if hasattr(x, '__sx_str__'):
        return x.__sx_str__()
    if _isinstance(x, Sym):
        raise Unsupported('str() of %r' % (_type(x),))
    return str(x)


def m_repr(x):
    if _isinstance(x, SInt) and not x.is_float:
        return render_int(x)
    if _isinstance(x, SBool):
        return 'True' if bool(x) else 'False'
    if _isinstance(x, CStr):
        # repr of a symbolic string is only used for messages; keep it opaque but valid
        return CStr.of('<symbolic>')
    if _isinstance(x, Sym):
        return '<symbolic %s>' % _type(x).__name__
    return repr(x)


def m_int(x=0, *a):
    if a:
        raise Unsupported('int(x, base)')
    if _isinstance(x, SInt):
        return SInt(x.z)
    if _isinstance(x, SBool):
        return SInt(z3.If(x.z, 1, 0))
    if _isinstance(x, CStr):
        return parse_int(x)
    if hasattr(x, '__sx_int__'):
        return x.__sx_int__()
    if _isinstance(x, Sym):
        raise TypeError("int() argument must be a string, a bytes-like object or a real number, not '%s'"
                        % pytype_of(x).__name__)
    return int(x)


def m_float(x=0.0):
    if _isinstance(x, SInt):
        E.add(z3.And(x.z > -2 ** 53, x.z < 2 ** 53)) if False else None
        return SInt(x.z, True)
    if _isinstance(x, SBool):
        return SInt(z3.If(x.z, 1, 0), True)
    if _isinstance(x, CStr):
        return sm.parse_float(x)
    if hasattr(x, '__sx_float__'):
        return x.__sx_float__()
    if _isinstance(x, Sym):
        raise TypeError("float() argument must be a string or a real number, not '%s'"
                        % pytype_of(x).__name__)
    return float(x)


def m_bool(x=False):
    # bool() of a symbolic truth value stays symbolic (no fork): the proxy behaves as the bool it denotes
    if _isinstance(x, SBool):
        return x
    if _isinstance(x, SInt):
        return x != 0
    return True if x else False


def m_abs(x):
    return abs(x)


def m_round(x, nd=None):
    if nd is not None:
        raise Unsupported('round(x, ndigits)')
    if _isinstance(x, SInt):
        return SInt(x.z)
    if hasattr(x, '__sx_round__'):
        return x.__sx_round__()
    return round(x)


def _minmax(args, kw, is_min):
    if kw:
        raise Unsupported('min/max with key')
    if _len(args) == 1:
        args = list(args[0])
    r = args[0]
    for a in args[1:]:
        if _isinstance(r, (SInt, int)) and _isinstance(a, (SInt, int)) and \
                (_isinstance(r, SInt) or _isinstance(a, SInt)):
            zr, za = zint(r), zint(a)
            r = SInt(z3.If(za < zr, za, zr) if is_min else z3.If(za > zr, za, zr),
                     getattr(r, 'is_float', False) and getattr(a, 'is_float', False))
        else:
            c = (a < r) if is_min else (a > r)
            if c:
                r = a
    return r


def m_min(*a, **k):
    return _minmax(a, k, True)


def m_max(*a, **k):
    return _minmax(a, k, False)


def m_ord(x):
    if _isinstance(x, CStr):
        if _len(x.c) != 1:
            raise TypeError('ord() expected a character')
        ch = x.c[0]
        return SInt(ch) if z3.is_expr(ch) else ch
    return ord(x)


def m_getattr(o, name, *d):
    if _isinstance(name, CStr):
        # fork over the (finite) attribute names of the object
        for n in dir(o):
            if _len(n) == _len(name.c) and bool(name == n):
                return getattr(o, n, *d)
        if d:
            return d[0]
        raise AttributeError('<symbolic attribute name>')
    return getattr(o, name, *d)


def m_hasattr(o, name):
    if _isinstance(name, CStr):
        for n in dir(o):
            if _len(n) == _len(name.c) and bool(name == n):
                return True
        return False
    return hasattr(o, name)


def m_modf(x):
    if hasattr(x, '__sx_modf__'):
        return x.__sx_modf__()
    if _isinstance(x, SInt):
        return (SInt(0, True), SInt(x.z, True))
    return math.modf(x)


def m_divmod(a, b):
    if _isinstance(a, SInt):
        return (a // b, a % b)
    return divmod(a, b)


def m_sum(it, start=0):
    r = start
    for x in it:
        r = r + x
    return r


def m_any(it):
    for x in it:
        if x:
            return True
    return False


def m_all(it):
    for x in it:
        if not x:
            return False
    return True


def m_hash(x):
    if _isinstance(x, Sym):
        raise Unsupported('hash() of proxy')
    return hash(x)


def m_format(x, spec=''):
    raise Unsupported('format() with proxy')


def m_range(*a):
    aa = []
    for x in a:
        if _isinstance(x, SInt):
            x = concretize(x, -64, 64)
        aa.append(x)
    return range(*aa)


def m_chr(x):
    if _isinstance(x, SInt):
        return CStr([x.z])
    return chr(x)


MODELS = {
    builtins.isinstance: m_isinstance, builtins.type: m_type, builtins.len: m_len,
    builtins.str: m_str, builtins.repr: m_repr, builtins.int: m_int, builtins.float: m_float,
    builtins.bool: m_bool, builtins.abs: m_abs, builtins.round: m_round,
    builtins.min: m_min, builtins.max: m_max, builtins.ord: m_ord, builtins.chr: m_chr,
    builtins.getattr: m_getattr, builtins.hasattr: m_hasattr, builtins.divmod: m_divmod,
    builtins.sum: m_sum, builtins.any: m_any, builtins.all: m_all, builtins.hash: m_hash,
    builtins.format: m_format, builtins.range: m_range,
    math.modf: m_modf,
}

# native callees that only move references around / compare through our overloads
PASS_NATIVE = {
    builtins.setattr, builtins.list, builtins.tuple, builtins.iter, builtins.next,
    builtins.enumerate, builtins.zip, builtins.reversed, builtins.id, builtins.sorted,
    builtins.callable, builtins.issubclass, builtins.print, builtins.filter, builtins.map,
    builtins.object, collections.deque, builtins.slice, builtins.super,
    object.__setattr__, object.__init__, object.__new__, type.__call__, type.__setattr__,
    __import__('itertools').chain,
    # type predicates of the inspect module only look at the python type of their argument: a proxy is none of these
    __import__('inspect').isgenerator, __import__('inspect').isgeneratorfunction, __import__('inspect').iscoroutine,
}

_LIST_PASS = {'append', 'insert', 'extend', 'pop', '__setitem__', '__getitem__', 'appendleft',
              'extendleft', 'clear', 'reverse', 'popleft', '__iter__', '__len__'}
_DICT_VALUE_PASS = {'setdefault', 'update', '__setitem__', 'pop', 'get', '__getitem__',
                    '__contains__', 'items', 'keys', 'values'}


def _dict_lookup(d, k):
    """concrete dict, symbolic key: fork over the keys.  Returns the matching concrete key
    or a unique sentinel."""
    for kk in list(d.keys()):
        if _isinstance(k, CStr):
            if _isinstance(kk, str) and not k.is_bytes or _isinstance(kk, bytes) and k.is_bytes:
                if _len(kk) == _len(k.c) and bool(k == kk):
                    return kk
        elif _isinstance(k, SInt):
            if _isinstance(kk, int) and not _isinstance(kk, bool) and bool(k == kk):
                return kk
        elif _isinstance(k, SBool):
            if _isinstance(kk, (bool, int)) and bool(k == kk):
                return kk
        elif k == kk:
            return kk
    return _MISSING


_MISSING = object()


def _is_pass_callable(f):
    mod = getattr(f, '__module__', None)
    if mod is None:
        slf = getattr(f, '__self__', None)
        if slf is not None:
            mod = getattr(_type(slf), '__module__', None)
    if mod is None:
        mod = getattr(_type(f), '__module__', '')
    return _isinstance(mod, str) and mod.startswith(PASS_PREFIXES)


def _qualname(f):
    try:
        fn = getattr(f, '__func__', f)
        return '%s.%s' % (fn.__module__, fn.__qualname__)
    except Exception:
        return repr(f)


def sx_call(f, *args, **kw):
    if not E.active:
        return f(*args, **kw)
    if f is builtins.isinstance:
        if _isinstance(args[0], Sym):
            return m_isinstance(*args)
        return _isinstance(*args)
    slf = getattr(f, '__self__', None)
    if slf is not None and _isinstance(slf, logging.Logger):
        return None
    if slf is not None and _type(slf) in (str, bytes) and args and getattr(f, '__name__', '') == 'join' \
            and _type(args[0]) not in (list, tuple, str, bytes, CStr):
        args = (list(args[0]),)         # materialise iterators so that proxies inside them are seen
    if not _has_proxy(args, kw):
        try:
            return f(*args, **kw)
        except TypeError as e:
            _proxy_leak(e)
            raise

    # ---- a proxy is among the arguments
    m = MODELS.get(f) if _isinstance(f, collections.abc.Hashable) else None
    if m is not None:
        return m(*args, **kw)

    if slf is not None and not _isinstance(slf, _type(builtins)):
        if _isinstance(slf, (Sym, CMatch, SDict)):
            return f(*args, **kw)
        name = getattr(f, '__name__', '')
        if _isinstance(slf, re.Pattern):
            a0 = args[0] if args else None
            if name in ('match', 'fullmatch', 'search') and _isinstance(a0, CStr):
                if _len(args) > 1:
                    raise Unsupported('regex pos/endpos')
                if name == 'search':
                    return re_search(slf, a0)
                return re_match(slf, a0, full=(name == 'fullmatch'))
            if name == 'sub' and _isinstance(args[1], CStr):
                return re_sub(slf, args[0], args[1], *args[2:], **kw)
            if name == 'findall' and _isinstance(a0, CStr):
                return re_findall(slf, a0)
            if name == 'finditer' and _isinstance(a0, CStr):
                return iter(re_finditer(slf, a0))
            if name == 'split' and _isinstance(a0, CStr):
                return re_split(slf, a0, *args[1:], **kw)
            raise Unsupported('regex method %s with proxy' % name)
        if _isinstance(slf, (str, bytes)):
            c = CStr.of(slf)
            if name in ('join', 'startswith', 'endswith', 'find', 'split', 'replace', 'strip',
                        'count', 'index', 'partition', 'rfind', '__contains__', '__eq__', '__add__'):
                return getattr(c, name)(*args, **kw)
            if name == 'format':
                return sm.str_format(slf, args, kw)
            raise Unsupported('str.%s with proxy argument' % name)
        if _isinstance(slf, dict):
            k = args[0] if args else None
            if _isinstance(k, Sym) and name in ('get', '__getitem__', '__contains__', 'pop', 'setdefault', 'has_key'):
                kk = _dict_lookup(slf, k)
                if name in ('__contains__', 'has_key'):
                    return kk is not _MISSING
                if kk is _MISSING:
                    if name == '__getitem__':
                        if hasattr(slf, '__missing__'):
                            return slf.__missing__(k)
                        raise KeyError('<symbolic key>')
                    if name == 'setdefault':
                        raise Unsupported('dict.setdefault with new symbolic key')
                    if name == 'pop' and _len(args) < 2:
                        raise KeyError('<symbolic key>')
                    return args[1] if _len(args) > 1 else None
                return f(kk, *args[1:], **kw)
            if name in _DICT_VALUE_PASS and not _isinstance(k, Sym):
                return f(*args, **kw)
            if name == '__setitem__' and _isinstance(k, Sym):
                kk = _dict_lookup(slf, k)
                if kk is _MISSING:
                    raise Unsupported('store under a new symbolic key in a plain dict')
                return f(kk, *args[1:])
            raise Unsupported('dict.%s with proxy argument' % name)
        if _isinstance(slf, (list, collections.deque)):
            if name in _LIST_PASS:
                if name in ('insert', 'pop', '__getitem__') and args and _isinstance(args[0], SInt):
                    i = concretize(args[0], -_len(slf) - 1, _len(slf) + 1)
                    return f(i, *args[1:])
                return f(*args, **kw)
            if name in ('index', 'count', 'remove', '__contains__'):
                return f(*args, **kw)       # uses == through our overloads
            raise Unsupported('list.%s with proxy argument' % name)
        if _isinstance(slf, (set, frozenset)):
            if name == '__contains__' or name == 'add' or name == 'discard':
                if name == '__contains__':
                    return bool(sx_in(args[0], slf))
                raise Unsupported('set.%s with proxy' % name)

    r = sm.dispatch(f, slf, args, kw)
    if r is not sm.NO_MODEL:
        return r

    if f in PASS_NATIVE:
        return f(*args, **kw)
    if _isinstance(f, _type):
        if issubclass(f, BaseException):
            return f(*args, **kw)
        if _is_pass_callable(f):
            E.touched.add(_qualname(f))
            return f(*args, **kw)
        if f in (dict, collections.OrderedDict):
            return f(*args, **kw) if not any(_isinstance(a, Sym) for a in args) else _unsup(f)
        if f in (list, tuple, collections.deque, object):
            return f(*args, **kw)
        return _unsup(f)
    if f in PASS_NATIVE:
        return f(*args, **kw)
    if _is_pass_callable(f):
        E.touched.add(_qualname(f))
        return f(*args, **kw)
    import functools
    if _isinstance(f, functools.partial) and _is_pass_callable(f.func):
        return f(*args, **kw)
    return _unsup(f)


_PROXY_NAMES = ('CStr', 'SInt', 'SBool', 'SBlob', 'SDate', 'STime', 'SDecimal', 'SFrac', 'SFixedOffset',
                'STotalSeconds', 'SDict')


def _proxy_leak(e):
    """a TypeError raised by native code because it met a proxy is not behaviour of the code
    under test: make the path inconclusive instead of letting spyne handle the exception"""
    msg = str(e)
    for n in _PROXY_NAMES:
        if n in msg:
            raise Unsupported('proxy leaked into native callee: %s' % msg)


def _unsup(f):
    raise Unsupported('proxy escapes to native callee %s' % _qualname(f))


# ------------------------------------------------------------------ operators
_FMT_RE = re.compile(r'(%%|%\([A-Za-z_0-9]+\)[sdir]|%0?\d*[sdiru])')


def _fmt_piece(a, spec):
    conv = spec[-1]
    flags = spec[1:-1]
    if _isinstance(a, CStr):
        if conv in 'di':
            raise TypeError('%d format: a real number is required, not str')
        if conv == 'r':
            return m_repr(a)
        if flags:
            raise Unsupported('padded %s of symbolic string')
        return a
    if _isinstance(a, SInt):
        if conv in 'diu' or (conv in 'sr' and not a.is_float):
            if flags:
                if flags[0] == '0':
                    return render_int_padded(SInt(a.z), int(flags[1:]))
                raise Unsupported('space padded integer format')
            return render_int(SInt(a.z))
        raise Unsupported('%%%s of symbolic float' % conv)
    if _isinstance(a, SBool):
        return m_str(a) if conv in 'sr' else ('1' if bool(a) else '0')
    if hasattr(a, '__sx_str__') and conv == 's':
        return a.__sx_str__()
    if hasattr(a, '__sx_fmt_int__') and conv in 'di':
        return _fmt_piece(a.__sx_fmt_int__(), spec)
    if _isinstance(a, Sym):
        if conv in 'sr':
            return '<symbolic %s>' % _type(a).__name__     # only used in messages
        raise Unsupported('format of %r' % (_type(a),))
    return ('%' + spec[1:]) % (a,)


def sx_mod(l, r):
    if E.active and _isinstance(l, (str, bytes)) and not _isinstance(l, CStr):
        if _isinstance(r, dict):
            if any(_isinstance(v, Sym) for v in r.values()):
                raise Unsupported('mapping format with proxy')
            return l % r
        rr = r if _isinstance(r, tuple) else (r,)
        if any(_isinstance(a, Sym) for a in rr):
            if _isinstance(l, bytes):
                raise Unsupported('bytes %-format with proxy')
            parts = _FMT_RE.split(l)
            out = CStr([])
            i = 0
            for p in parts:
                if p == '%%':
                    out = out + '%'
                elif _FMT_RE.fullmatch(p):
                    if '(' in p:
                        raise Unsupported('named format')
                    if i >= _len(rr):
                        raise TypeError('not enough arguments for format string')
                    out = out + _fmt_piece(rr[i], p)
                    i += 1
                elif p:
                    if '%' in p:
                        raise Unsupported('format spec in %r' % p)
                    out = out + p
            if i != _len(rr):
                raise TypeError('not all arguments converted during string formatting')
            return out
    return l % r


def sx_in(x, container):
    if not E.active:
        return x in container
    if _isinstance(container, (CStr, SDict)):
        return container.__contains__(x)
    if _isinstance(x, Sym):
        if _isinstance(container, (tuple, list, set, frozenset)):
            conds = []
            for el in container:
                r = (x == el)
                if _isinstance(r, SBool):
                    conds.append(r.z)
                elif r is True:
                    return True
                elif _isinstance(r, Sym):
                    conds.append(zb(r))
            if not conds:
                return False
            return SBool(z3.Or(*conds) if _len(conds) > 1 else conds[0])
        if _isinstance(container, dict):
            return _dict_lookup(container, x) is not _MISSING
        if _isinstance(container, (str, bytes)):
            return CStr.of(container).__contains__(x)
        if hasattr(container, '__sx_contains__'):
            return container.__sx_contains__(x)
        if _is_pass_callable(_type(container)):
            return x in container
        raise Unsupported('proxy `in` %r' % (_type(container),))
    return x in container


def sx_not(x):
    if _isinstance(x, SBool):
        return SBool(z3.Not(x.z))
    return not x


def sx_getitem(obj, key):
    if E.active and _isinstance(key, Sym):
        if _isinstance(obj, SDict) or _isinstance(obj, Sym):
            return obj[key]
        if _isinstance(obj, dict):
            kk = _dict_lookup(obj, key)
            if kk is _MISSING:
                if hasattr(obj, '__missing__'):
                    return obj.__missing__(key)
                raise KeyError('<symbolic key>')
            return obj[kk]
        if _isinstance(obj, (list, tuple)) and _isinstance(key, SInt):
            i = concretize(key, -_len(obj) - 1, _len(obj) + 1)
            return obj[i]
        if _is_pass_callable(_type(obj)):
            return obj[key]
        raise Unsupported('symbolic subscript on %r' % (_type(obj),))
    return obj[key]

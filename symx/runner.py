"""Runner: explores every path of every harness of a property, discharges one solver
obligation per path, replays counterexamples and path witnesses on the un-instrumented code,
applies the known-findings file and writes the evidence file."""
import os
import sys
import json
import time
import glob
import hashlib
import argparse
import importlib
import subprocess
import traceback
import logging
import warnings
import multiprocessing

VERIF = os.path.dirname(os.path.dirname(os.path.abspath(__file__)))
REPO = os.environ.get('SYMX_REPO', '/repo')
HARNESS_ERROR = 2


def harness_modules(prop):
    mods = []
    for p in sorted(glob.glob(os.path.join(VERIF, 'harness', prop + '*.py'))):
        mods.append('harness.' + os.path.basename(p)[:-3])
    return mods


# ------------------------------------------------------------------ native worker client
class Native(object):
    def __init__(self):
        self.p = None

    def start(self):
        env = dict(os.environ)
        env['PYTHONPATH'] = os.pathsep.join([VERIF, REPO, os.path.join(VERIF, '.deps')])
        env['PYTHONDONTWRITEBYTECODE'] = '1'
        env['PYTHONHASHSEED'] = '0'
        self.p = subprocess.Popen([sys.executable, '-m', 'symx.native'], stdin=subprocess.PIPE,
                                  stdout=subprocess.PIPE, stderr=subprocess.DEVNULL, env=env,
                                  cwd=VERIF, text=True, bufsize=1)

    def run(self, h, pidx, inputs, tier):
        if self.p is None or self.p.poll() is not None:
            self.start()
        req = {'module': h.module, 'prop': h.prop, 'name': h.name, 'pidx': pidx,
               'inputs': inputs, 'tier': tier}
        try:
            self.p.stdin.write(json.dumps(req) + '\n')
            self.p.stdin.flush()
            line = self.p.stdout.readline()
            if not line:
                raise IOError('native worker died')
            return json.loads(line)
        except Exception as e:
            self.close()
            return {'kind': 'worker-error', 'msg': repr(e)}

    def close(self):
        if self.p is not None:
            try:
                self.p.stdin.close()
                self.p.kill()
            except Exception:
                pass
            self.p = None


NATIVE = Native()


# ------------------------------------------------------------------ known findings
def load_known(prop):
    path = os.path.join(VERIF, 'known_findings.json')
    if not os.path.exists(path):
        return []
    data = json.load(open(path))
    return [f for f in data.get('findings', []) if f.get('property') == prop]


def _kf_namespace(values, param, pidx, exc, site, symbolic, h):
    import builtins
    ns = {'param': param, 'pidx': pidx, 'exc': exc, 'site': site, 'len': builtins.len, 'ord': ord,
          'label': h.param_label(pidx), 'None': None, 'True': True, 'False': False}
    if symbolic:
        from .symctx import SymCtx
        sx = SymCtx()
    else:
        from .api import ConcCtx
        sx = ConcCtx({})
    ns.update({'And': sx.And, 'Or': sx.Or, 'Not': sx.Not, 'Implies': sx.Implies, 'eq': sx.eq})

    def startswith(s, p):
        if isinstance(s, str):
            return s.startswith(p)
        return s.startswith(p)
    ns['startswith'] = startswith
    ns['H'] = sys.modules.get(h.module)
    ns['h_name'] = h.name
    ns['v'] = values
    for k, val in values.items():
        if k.isidentifier() and k not in ns:
            ns[k] = val
    return ns


def kf_eval(kf, values, param, pidx, exc, site, symbolic, h):
    """evaluate a known-finding predicate; returns python bool or SBool; False on any error"""
    if kf.get('harness') not in (None, '*', h.name):
        return False
    try:
        ns = _kf_namespace(values, param, pidx, exc, site, symbolic, h)
        return eval(kf['when'], {'__builtins__': {}}, ns)
    except Exception:
        return False


# ------------------------------------------------------------------ one job
def _digest(obj):
    return hashlib.sha1(json.dumps(obj, sort_keys=True, default=str).encode()).hexdigest()[:12]


def violates(nat):
    return nat.get('kind') == 'exc' or (nat.get('kind') == 'ret' and nat.get('prop') is False)


def run_job(job):
    hkey, pidx, tier, opts = job
    import z3
    from .core import (E, Unsupported, PathAbort, BoundExceeded, SymxControl, zbool, SBool, SInt)
    from .strs import CStr
    from .symctx import SymCtx, OutsideClaimPath, eval_inputs, eval_value
    from .api import REGISTRY
    from .native import exc_site

    h = REGISTRY[hkey]
    param = h.params[pidx]
    known = opts['known']
    t0 = time.time()
    E.max_decisions = h.max_decisions
    E.timeout_ms = opts['solver_timeout_ms']
    E.nq = E.nq_sat = E.nq_unsat = E.nq_unknown = 0
    E.tq = 0.0
    E.touched = set()
    res = {
        'harness': h.name, 'param': h.param_label(pidx), 'pidx': pidx,
        'paths': 0, 'kinds': {}, 'obligations': 0, 'holds': 0, 'trivial': 0,
        'validated': 0, 'violations': [], 'known_hits': [], 'errors': [], 'inconclusive': [],
        'outside': {}, 'samples': [], 'mismatch': [], 'distinct': set(),
    }
    E.decisions = []
    E.arity = []
    validate = opts.get('validate', True)

    def native(inputs):
        return NATIVE.run(h, pidx, inputs, tier)

    def sym_values():
        vals = {}
        for name, (kind, v) in E.inputs.items():
            vals[name] = SInt(v) if kind == 'int' else SBool(v) if kind == 'bool' else v
        return vals

    def record_violation(inputs, nat, how, sym_desc):
        # known finding (concrete evaluation)?
        for kf in known:
            r = kf_eval(kf, inputs['vars'], param, pidx, nat.get('exc'), nat.get('site'), False, h)
            if r is True or (not isinstance(r, bool) and bool(r)):
                hit = {'id': kf['id'], 'what': kf['what'], 'inputs': inputs, 'native': nat, 'how': how}
                if not any(x['id'] == kf['id'] for x in res['known_hits']):
                    res['known_hits'].append(hit)
                return 'known'
        rep = {'property': h.prop, 'harness': h.name, 'module': h.module, 'pidx': pidx,
               'param': h.param_label(pidx), 'tier': tier, 'inputs': inputs,
               'found_by': how, 'symbolic': sym_desc, 'native_outcome': nat}
        d = _digest([h.name, pidx, inputs])
        rdir = os.path.join(VERIF, 'replays', h.prop)
        os.makedirs(rdir, exist_ok=True)
        path = os.path.join(rdir, '%s-%s.json' % (h.name, d))
        with open(path, 'w') as f:
            json.dump(rep, f, indent=1, default=str)
        if len(res['violations']) < 20:
            res['violations'].append({'replay': path, 'inputs': inputs, 'native': nat, 'how': how})
        return 'new'

    while True:
        E.reset_run()
        sx = SymCtx(tier)
        kind = 'ret'; prop = None; exc = None; info = None
        E.active = True
        try:
            prop = h.fn(sx, param)
        except OutsideClaimPath as e:
            kind = 'outside'; info = str(e)
        except PathAbort:
            kind = 'abort'
        except BoundExceeded as e:
            kind = 'bound'; info = str(e)
        except Unsupported as e:
            kind = 'unsupported'; info = str(e)
        except RecursionError as e:
            kind = 'unsupported'; info = 'RecursionError'
        except Exception as e:
            kind = 'exc'; exc = e
        finally:
            E.active = False
        res['paths'] += 1
        res['kinds'][kind] = res['kinds'].get(kind, 0) + 1

        try:
            if kind == 'outside':
                res['outside'][info] = res['outside'].get(info, 0) + 1
            elif kind == 'abort':
                pass
            else:
                _process_path(E, z3, h, param, pidx, kind, prop, exc, info, res, known, native,
                              record_violation, sym_values, validate, eval_inputs, eval_value,
                              zbool, exc_site, Unsupported)
        except Unsupported as e:
            res['inconclusive'].append('post-path: %s' % (e,))

        if res['paths'] >= h.max_paths:
            res['inconclusive'].append('max_paths %d reached' % h.max_paths)
            break
        if len(res['violations']) >= 20:
            break
        if opts.get('deadline') and time.time() > opts['deadline']:
            res['inconclusive'].append('job deadline reached after %d paths' % res['paths'])
            break
        if not E.next_path():
            break

    res['queries'] = E.nq
    res['q_sat'] = E.nq_sat
    res['q_unsat'] = E.nq_unsat
    res['q_unknown'] = E.nq_unknown
    res['solver_s'] = round(E.tq, 3)
    res['wall_s'] = round(time.time() - t0, 3)
    res['touched'] = sorted(E.touched)
    res['distinct'] = len(res['distinct'])
    return res


def _process_path(E, z3, h, param, pidx, kind, prop, exc, info, res, known, native,
                  record_violation, sym_values, validate, eval_inputs, eval_value, zbool,
                  exc_site, Unsupported):
    sym_exc = type(exc).__name__ if exc is not None else None
    sym_site = exc_site(exc.__traceback__) if exc is not None else None
    sym_desc = {'kind': kind, 'exc': sym_exc, 'site': sym_site,
                'msg': (('%s' % (exc,))[:200] if exc is not None else info)}

    def model_now(*extra):
        E.solver.push()
        for e in extra:
            E.solver.add(e)
        r = E.solver.check()
        if r == z3.unknown:
            r = E._retry_unknown()
        E.nq += 1
        m = E.solver.model() if r == z3.sat else None
        E.solver.pop()
        if r == z3.unknown:
            E.nq_unknown += 1
            raise Unsupported('solver unknown in obligation')
        if r == z3.sat:
            E.nq_sat += 1
        else:
            E.nq_unsat += 1
        return m

    if kind in ('bound', 'unsupported'):
        res['inconclusive'].append('%s: %s' % (kind, info))
        if validate:
            m = model_now()
            if m is not None:
                inputs = eval_inputs(m)
                nat = native(inputs)
                if violates(nat):
                    record_violation(inputs, nat, 'witness of inconclusive path', sym_desc)
        return

    # --- obligation of this path
    res['obligations'] += 1
    if kind == 'exc':
        nv = True
    else:
        p = zbool(prop)
        nv = (not p) if isinstance(p, bool) else z3.Not(p)
    if nv is False:
        res['trivial'] += 1
        res['holds'] += 1
        bad_model = None
    else:
        # exclude known findings symbolically
        vals = sym_values()
        E.active = True      # predicates may compare proxies
        try:
            ks = []
            for kf in known:
                r = kf_eval(kf, vals, param, pidx, sym_exc, sym_site, True, h)
                r = zbool(r)
                if r is False:
                    continue
                ks.append((kf, r))
        finally:
            E.active = False
        extra = [] if nv is True else [nv]
        excl = [z3.Not(r) for kf, r in ks if r is not True]
        if any(r is True for kf, r in ks):
            bad_model = None
        else:
            bad_model = None
            if E.hints:
                bad_model = model_now(*(extra + excl + list(E.hints)))
            if bad_model is None:
                bad_model = model_now(*(extra + excl))
        if bad_model is not None:
            inputs = eval_inputs(bad_model)
            nat = native(inputs)
            if violates(nat):
                record_violation(inputs, nat, 'solver counterexample', sym_desc)
            else:
                res['errors'].append({'what': 'counterexample did not reproduce natively',
                                      'inputs': inputs, 'symbolic': sym_desc, 'native': nat})
            return
        # known findings that are still present
        for kf, r in ks:
            m = model_now(*(extra + ([] if r is True else [r])))
            if m is not None:
                inputs = eval_inputs(m)
                nat = native(inputs)
                if violates(nat):
                    if not any(x['id'] == kf['id'] for x in res['known_hits']):
                        res['known_hits'].append({'id': kf['id'], 'what': kf['what'],
                                                  'inputs': inputs, 'native': nat,
                                                  'how': 'solver counterexample'})
                else:
                    res['errors'].append({'what': 'known-finding witness did not reproduce',
                                          'id': kf['id'], 'inputs': inputs, 'native': nat})
        if not ks:
            res['holds'] += 1
        elif kind == 'exc' or nv is True:
            return

    # --- validate the path witness on the real code
    if validate:
        if kind == 'exc':
            return
        extra = []
        if nv is not False and nv is not True:
            extra = [z3.Not(nv)]
        m = model_now(*extra)
        if m is None:
            return
        inputs = eval_inputs(m)
        nat = native(inputs)
        sym_obs = [[k, eval_value(m, v)] for k, v in E.observed]
        res['validated'] += 1
        res['distinct'].add(_digest(inputs))
        if nat.get('kind') == 'worker-error':
            res['errors'].append({'what': 'native worker error', 'msg': nat.get('msg')})
        elif violates(nat):
            record_violation(inputs, nat, 'path witness replay', sym_desc)
        elif nat.get('kind') != 'ret' or nat.get('obs') != sym_obs:
            res['mismatch'].append({'inputs': inputs, 'symbolic_obs': sym_obs, 'native': nat})
        if len(res['samples']) < 3:
            res['samples'].append({'inputs': inputs, 'verdict': 'unsat (holds)' if nv is not False
                                   else 'holds (concrete on this path)', 'observed': sym_obs})


# ------------------------------------------------------------------ driver
def _init_worker():
    warnings.simplefilter('ignore')
    logging.disable(logging.CRITICAL)
    sys.setrecursionlimit(20000)


def _job_entry(job):
    try:
        return run_job(job)
    except BaseException as e:
        return {'harness': job[0][1], 'pidx': job[1], 'param': '', 'fatal': traceback.format_exc()[-3000:]}
    finally:
        pass


def replay(prop, path):
    rep = json.load(open(path))
    importlib.import_module(rep['module'])
    from .api import REGISTRY
    from .native import run_concrete
    h = REGISTRY[(rep['property'], rep['harness'])]
    if h.tier_params:
        h.params = h.tier_params[rep.get('tier', 'quick')]
    out = run_concrete(h, rep['pidx'], rep['inputs'], rep.get('tier', 'quick'))
    print('replay %s harness=%s param=%s' % (path, rep['harness'], rep.get('param')))
    print('inputs: %s' % json.dumps(rep['inputs']))
    print('observed on /repo (un-instrumented): %s' % json.dumps(out))
    if violates(out):
        print('VIOLATION property=%s replay=%s' % (rep['property'], path))
        return 1
    print('no violation reproduced')
    return 0


def main(argv=None):
    ap = argparse.ArgumentParser()
    ap.add_argument('prop')
    ap.add_argument('--tier', default=os.environ.get('VERIF_TIER') or 'quick')
    ap.add_argument('--replay')
    ap.add_argument('--only', help='harness name filter (substring)')
    ap.add_argument('--param', help='with --only: universe label filter (substring); debugging aid, never writes evidence')
    ap.add_argument('--procs', type=int, default=int(os.environ.get('SYMX_PROCS', '0')) or None)
    ap.add_argument('--no-validate', action='store_true')
    ap.add_argument('--verbose', '-v', action='store_true')
    ap.add_argument('--no-evidence', action='store_true')
    args = ap.parse_args(argv)
    prop = args.prop
    tier = args.tier if args.tier in ('quick', 'thorough') else 'quick'
    try:
        seed = int(os.environ.get('VERIF_SEED', '0'))
    except ValueError:
        seed = 0

    sys.path.insert(0, VERIF)
    if REPO not in sys.path:
        sys.path.insert(1, REPO)
    _init_worker()

    if args.replay:
        return replay(prop, args.replay)

    t0 = time.time()
    from . import hook
    hook.install()
    mods = harness_modules(prop)
    if not mods:
        print('no harness for %s' % prop)
        return HARNESS_ERROR
    for m in mods:
        importlib.import_module(m)
    from .api import REGISTRY
    known = load_known(prop)
    opts = {'known': known, 'solver_timeout_ms': 20000 if tier == 'quick' else 120000,
            'validate': not args.no_validate}
    jobs = []
    for (p, name), h in REGISTRY.items():
        if p != prop:
            continue
        if args.only and args.only not in name:
            continue
        if h.tier_params:
            h.params = h.tier_params[tier]
        for i in range(len(h.params)):
            if args.param and args.param not in h.param_label(i):
                continue
            jobs.append(((p, name), i, tier, opts))
    if seed:
        import random
        random.Random(seed).shuffle(jobs)
    nproc = args.procs or min(16, os.cpu_count() or 4)
    if nproc > 1 and len(jobs) > 1:
        ctx = multiprocessing.get_context('fork')
        with ctx.Pool(min(nproc, len(jobs)), initializer=_init_worker) as pool:
            results = pool.map(_job_entry, jobs, chunksize=1)
    else:
        results = [_job_entry(j) for j in jobs]
        NATIVE.close()

    return report(prop, tier, seed, results, time.time() - t0, args, REGISTRY, known)


def report(prop, tier, seed, results, wall, args, REGISTRY, known):
    viol = []; hits = {}; errors = []; inconcl = []; mism = []
    tot = {'paths': 0, 'queries': 0, 'validated': 0, 'obligations': 0, 'holds': 0, 'solver_s': 0.0,
           'q_sat': 0, 'q_unsat': 0, 'q_unknown': 0, 'distinct': 0}
    touched = set(); outside = {}; samples = []; per = []
    for r in results:
        if 'fatal' in r:
            errors.append({'harness': r['harness'], 'fatal': r['fatal']})
            continue
        for k in tot:
            tot[k] += r.get(k, 0)
        touched.update(r['touched'])
        for k, v in r['outside'].items():
            outside[k] = outside.get(k, 0) + v
        for v in r['violations']:
            viol.append((r, v))
        for hit in r['known_hits']:
            hits.setdefault(hit['id'], (r, hit))
        for e in r['errors']:
            errors.append(dict(e, harness=r['harness'], param=r['param']))
        for e in r['inconclusive']:
            inconcl.append('%s[%s]: %s' % (r['harness'], r['param'], e))
        for e in r['mismatch']:
            mism.append(dict(e, harness=r['harness'], param=r['param']))
        h = REGISTRY[(prop, r['harness'])]
        verdict = 'holds' if not (r['violations'] or r['errors'] or r['inconclusive'] or r['mismatch']) \
            else 'violated' if r['violations'] else 'inconclusive'
        if r['known_hits'] and verdict == 'holds':
            verdict = 'holds except known findings'
        ob = {'harness': r['harness'], 'universe': r['param'], 'functions': h.functions,
              'bounds': h.bounds, 'paths': r['paths'], 'path_kinds': r['kinds'],
              'queries': r['queries'], 'solver_s': r['solver_s'], 'wall_s': r['wall_s'],
              'verdict': verdict}
        if r['samples']:
            ob['witness'] = r['samples'][0]
        per.append(ob)
        if args.verbose:
            print('  %-28s %-30s paths=%-5d q=%-6d %.1fs %s %s' % (
                r['harness'], r['param'][:30], r['paths'], r['queries'], r['wall_s'], r['kinds'], verdict))

    for kid, (r, hit) in sorted(hits.items()):
        print('KNOWN-FINDING: property=%s %s [%s] witness=%s' % (
            prop, hit['what'], kid, json.dumps(hit['inputs'].get('vars'))[:200]))
    shown = {}
    for r, v in viol:
        shown[r['harness']] = shown.get(r['harness'], 0) + 1
        if shown[r['harness']] > 3:
            continue
        print('VIOLATION property=%s replay=%s' % (prop, v['replay']))
        print('  harness=%s[%s] found_by=%s inputs=%s native=%s' % (
            r['harness'], r['param'], v['how'], json.dumps(v['inputs'])[:300],
            json.dumps(v['native'])[:300]))
    for e in errors[:10]:
        print('HARNESS-ERROR %s' % json.dumps(e, default=str)[:1500])
    for e in mism[:10]:
        print('MODEL-MISMATCH %s' % json.dumps(e, default=str)[:800])
    for e in inconcl[:10]:
        print('INCONCLUSIVE %s' % e[:400])

    status = 1 if viol else (HARNESS_ERROR if (errors or inconcl or mism) else 0)
    harnesses = sorted(set(o['harness'] for o in per))
    allh = [h for (p, n), h in REGISTRY.items() if p == prop]
    level = 'model_checking'
    try:
        for c in json.load(open(os.path.join(VERIF, 'MANIFEST.json'))).get('checks', []):
            if c.get('property_id') == prop:
                level = c['level_claimed']['category']
    except Exception:
        pass
    ev = {
        'property_id': prop, 'tier': tier, 'seed': seed, 'level': level,
        'coverage': {
            'evaluations': tot['paths'], 'distinct_nontrivial': tot['distinct'],
            'rule': 'one evaluation per explored path of the instrumented code (every feasible branch / schedule choice '
                    'inside the stated bounds); a case is counted as distinct and non-trivial when its path witness (a solver '
                    'model of the path condition) has a distinct input assignment and was replayed on un-instrumented /repo',
            'states': tot['paths'], 'transitions': tot['queries'],
            'traces_validated_against_impl': tot['validated'],
            'samples': per[:60] if per else [{'note': 'no obligations'}],
            'obligations': tot['obligations'], 'discharged_unsat_or_trivial': tot['holds'],
            'queries_sat': tot['q_sat'], 'queries_unsat': tot['q_unsat'],
            'queries_unknown': tot['q_unknown'], 'solver_time_s': round(tot['solver_s'], 2),
            'functions_encoded': sorted(touched),
            'harnesses': harnesses,
            'bounds': {h.name: h.bounds for h in allh if h.bounds},
            'outside_claim': sorted(set(sum([h.outside for h in allh], []))),
            'outside_claim_paths': outside,
            'inconclusive': inconcl[:50], 'model_mismatches': len(mism),
            'harness_errors': len(errors),
            'known_findings_hit': sorted(hits),
            'explanation': 'bounded symbolic execution of the instrumented /repo source; one '
                           'z3 query PC && !property per explored path; every path witness and '
                           'every counterexample is replayed on un-instrumented /repo',
            'exhaustive': False,
        },
        'assumptions': sorted(set(sum([h.outside for h in allh], []))) + [
            'z3 5.1 verdicts; symx proxies and stdlib models (validated per path against the real code)'],
        'wall_s': round(wall, 2),
        'violations': len(viol),
    }
    if not args.no_evidence and not args.only and not args.param:
        os.makedirs(os.path.join(VERIF, 'evidence'), exist_ok=True)
        with open(os.path.join(VERIF, 'evidence', prop + '.json'), 'w') as f:
            json.dump(ev, f, indent=1, default=str)
    print('%s tier=%s: %d harness jobs, %d paths, %d queries (%.1fs solver), %d witnesses replayed, '
          '%d violations, %d known findings, %d inconclusive, wall %.1fs -> exit %d' % (
              prop, tier, len(results), tot['paths'], tot['queries'], tot['solver_s'],
              tot['validated'], len(viol), len(hits), len(inconcl) + len(errors) + len(mism),
              wall, status))
    return status


if __name__ == '__main__':
    sys.exit(main())

"""Harness API.  A harness is written once and runs in two modes:

* symbolic (SymCtx): inputs are proxies, the instrumented /repo code runs under the engine,
  the returned property is a z3 term that the solver must prove under the path condition;
* concrete (ConcCtx): inputs come from a solver model, plain un-instrumented /repo code runs
  in a separate interpreter, the returned property is a python bool.  This mode replays
  counterexamples and validates the witness of every explored path against the real code.
"""
import collections

REGISTRY = collections.OrderedDict()     # (prop, name) -> Harness


class Harness(object):
    def __init__(self, fn, prop, name, params, functions, bounds, outside, e2e=None,
                 max_paths=20000, max_decisions=2000, doc=None, universes=None, label=None):
        self.label = label
        self.fn = fn
        self.prop = prop
        self.name = name
        self.params = params if params is not None else [None]
        self.functions = functions or []
        self.bounds = bounds or {}
        self.outside = outside or []
        self.max_paths = max_paths
        self.max_decisions = max_decisions
        self.doc = doc or (fn.__doc__ or '').strip()
        self.module = fn.__module__
        self.tiers = getattr(fn, '_tiers', None)

    def param_label(self, i):
        p = self.params[i]
        if p is None:
            return ''
        if self.label is not None:
            return str(self.label(p))
        lab = getattr(p, 'label', None)
        if lab is not None:
            return lab
        if isinstance(p, (tuple, list)):
            return ','.join(_lab(x) for x in p)
        return _lab(p)


def _lab(x):
    if isinstance(x, type):
        return x.__name__
    n = getattr(x, '__name__', None)
    if n:
        return n
    return str(x)


def harness(prop, name=None, params=None, functions=None, bounds=None, outside=None,
            max_paths=20000, max_decisions=2000, tier_params=None, label=None):
    """tier_params: optional {'quick': [...], 'thorough': [...]} overriding params per tier."""
    import sys
    module = sys._getframe(1).f_globals.get('__name__')

    def deco(fn):
        h = Harness(fn, prop, name or fn.__name__, params, functions, bounds, outside,
                    max_paths=max_paths, max_decisions=max_decisions, label=label)
        h.tier_params = tier_params
        if module:
            h.module = module
        REGISTRY[(prop, h.name)] = h
        fn.harness = h
        return fn
    return deco


class OutsideClaim(Exception):
    """raised by ConcCtx when a harness declares the current case outside its claim"""


class ConcAbort(Exception):
    pass


class ConcCtx(object):
    """concrete mode: values come from `inputs` = {'vars': {...}, 'choices': [...]}"""
    symbolic = False

    def __init__(self, inputs, tier='quick'):
        self.vars = inputs.get('vars', {})
        self.choices = list(inputs.get('choices', []))
        self.cpos = 0
        self.observed = []
        self.tier = tier

    # -- inputs
    def _get(self, name, default):
        return self.vars.get(name, default)

    def int(self, name, lo=None, hi=None):
        v = self._get(name, lo if lo is not None else 0)
        if (lo is not None and v < lo) or (hi is not None and v > hi):
            raise ConcAbort('input %s=%r outside [%r, %r]' % (name, v, lo, hi))
        return v

    def bool(self, name):
        return bool(self._get(name, False))

    def text(self, name, length, alphabet=None, lo=32, hi=126, bytes_=False):
        v = self._get(name, None)
        if v is None:
            ch = alphabet[0] if alphabet else chr(lo)
            v = ch * length
        if bytes_:
            return v.encode('latin-1') if isinstance(v, str) else bytes(v)
        return v

    def char(self, name, alphabet=None, lo=32, hi=126):
        return self.text(name, 1, alphabet, lo, hi)

    def digits(self, name, n):
        return self.text(name, n, '0123456789')

    def blob(self, name, maxlen=None):
        return b'x' * self._get(name, 0)

    def choose(self, name, options):
        n = options if isinstance(options, int) else len(options)
        if n == 1:
            c = 0
            if self.cpos < len(self.choices):
                self.cpos += 1
        else:
            if self.cpos >= len(self.choices):
                c = 0
            else:
                c = self.choices[self.cpos]
            self.cpos += 1
        return c if isinstance(options, int) else options[c]

    # -- structured inputs (stdlib values)
    def date(self, name, ymin=1, ymax=9999):
        import datetime
        y, m, d = self.int(name + '_y', ymin, ymax), self.int(name + '_m', 1, 12), self.int(name + '_d', 1, 31)
        try:
            return datetime.date(y, m, d)
        except ValueError:
            raise ConcAbort('invalid date')

    def time(self, name, tz='naive', offset_range=(-840, 840)):
        import datetime, pytz
        tzinfo = None
        if tz == 'utc':
            tzinfo = pytz.utc
        elif tz == 'offset':
            tzinfo = pytz.FixedOffset(self.int(name + '_off', *offset_range))
        return datetime.time(self.int(name + '_H', 0, 23), self.int(name + '_M', 0, 59),
                             self.int(name + '_S', 0, 59), self.int(name + '_us', 0, 999999), tzinfo)

    def datetime(self, name, tz='naive', ymin=1, ymax=9999, offset_range=(-840, 840)):
        import datetime, pytz
        y, m, d = self.int(name + '_y', ymin, ymax), self.int(name + '_m', 1, 12), self.int(name + '_d', 1, 31)
        H, M, S, us = (self.int(name + '_H', 0, 23), self.int(name + '_M', 0, 59),
                       self.int(name + '_S', 0, 59), self.int(name + '_us', 0, 999999))
        tzinfo = None
        if tz == 'utc':
            tzinfo = pytz.utc
        elif tz == 'offset':
            tzinfo = pytz.FixedOffset(self.int(name + '_off', *offset_range))
        try:
            return datetime.datetime(y, m, d, H, M, S, us, tzinfo)
        except ValueError:
            raise ConcAbort('invalid datetime')

    def timedelta(self, name, maxdays=999999999):
        import datetime
        return datetime.timedelta(days=self.int(name + '_days', -maxdays, maxdays),
                                  seconds=self.int(name + '_s', 0, 86399),
                                  microseconds=self.int(name + '_us', 0, 999999))

    def decimal(self, name, ndigits, exp):
        import decimal
        neg = self.bool(name + '_neg')
        digs = self.digits(name + '_digits', ndigits)
        if ndigits > 1 and digs[0] == '0':
            raise ConcAbort('leading zero')
        return decimal.Decimal(('-' if neg else '') + digs + 'E%d' % exp)

    def mkdict(self, pairs):
        return dict(pairs)

    def offset_minutes(self, dt):
        off = dt.utcoffset()
        if off is None:
            return None
        return off.days * 1440 + off.seconds // 60

    def td_microseconds(self, td):
        return (td.days * 86400 + td.seconds) * 1000000 + td.microseconds

    # -- control
    def assume(self, c):
        if not c:
            raise ConcAbort('assumption failed')

    def outside(self, reason):
        raise OutsideClaim(reason)

    def observe(self, key, val):
        self.observed.append([key, _plain(val)])

    def concretize(self, x, lo, hi):
        return x

    # -- logic helpers usable in both modes
    def And(self, *a): return all(bool(x) for x in a)
    def Or(self, *a): return any(bool(x) for x in a)
    def Not(self, a): return not a
    def Implies(self, a, b): return (not a) or bool(b)
    def ite(self, c, a, b): return a if c else b

    def eq(self, a, b):
        if type(a) in (str, bytes) or type(b) in (str, bytes):
            return type(a) is type(b) and a == b
        if a is None or b is None:
            return a is b
        if isinstance(a, bool) != isinstance(b, bool):
            return False
        return a == b

    def is_int(self, x):
        return isinstance(x, int) and not isinstance(x, bool)

    def is_str(self, x):
        return isinstance(x, str)

    def is_bytes(self, x):
        return isinstance(x, bytes)

    def is_bool(self, x):
        return isinstance(x, bool)

    def length(self, x):
        return len(x)

    def strval(self, x):
        return x

    def intval(self, x):
        return x

    def matches(self, regex, text):
        """full match of a concrete regular expression"""
        import re
        return re.fullmatch(regex, text) is not None

    def digits_value(self, text):
        return int(text) if text else 0

    def render(self, v):
        return str(v)


def _plain(v):
    if v is None or isinstance(v, (bool, int, str)):
        return v
    if isinstance(v, float):
        return repr(v)
    if isinstance(v, bytes):
        return 'b:' + v.decode('latin-1')
    if isinstance(v, (list, tuple)):
        return [_plain(x) for x in v]
    if isinstance(v, dict):
        return {str(k): _plain(x) for k, x in v.items()}
    if isinstance(v, type):
        return 'type:' + v.__name__
    return 'obj:' + type(v).__name__

"""Symbolic strings of concrete length (lists of character codes) and a backtracking
regular-expression matcher over them that mirrors `re`'s greedy/backtracking order."""
import re
import z3
from .core import E, Sym, SBool, SInt, Unsupported, BoundExceeded, zint, zb

try:
    import re._parser as sre_parse, re._constants as sre_c
except ImportError:  # pragma: no cover
    import sre_parse, sre_constants as sre_c


def _cz(c):
    return c if z3.is_expr(c) else z3.IntVal(c)


def _is_sym(c):
    return z3.is_expr(c)


class CStr(Sym):
    """str / bytes of concrete length.  `c` is a list of char codes (python int or z3 Int)."""
    __slots__ = ('c', 'intval', 'is_bytes')

    def __init__(self, chars, intval=None, is_bytes=False):
        self.c = list(chars)
        self.intval = intval          # provenance: decimal rendering of this SInt
        self.is_bytes = is_bytes

    @staticmethod
    def of(x):
        if isinstance(x, CStr):
            return x
        if isinstance(x, str):
            return CStr([ord(ch) for ch in x])
        if isinstance(x, (bytes, bytearray)):
            return CStr(list(x), is_bytes=True)
        raise Unsupported('cannot lift %r to CStr' % (type(x),))

    def _mk(self, chars):
        return CStr(chars, is_bytes=self.is_bytes)

    def is_concrete(self):
        return not any(_is_sym(ch) for ch in self.c)

    def concrete_value(self):
        if self.is_bytes:
            return bytes(self.c)
        return ''.join(chr(ch) for ch in self.c)

    def __len__(self):
        return len(self.c)

    def __bool__(self):
        return len(self.c) > 0

    def __iter__(self):
        if self.is_bytes:
            return (SInt(_cz(ch)) if _is_sym(ch) else ch for ch in self.c)
        return (self._mk([ch]) for ch in self.c)

    def __getitem__(self, i):
        if isinstance(i, slice):
            return self._mk(self.c[i])
        if isinstance(i, Sym):
            raise Unsupported('symbolic index into CStr')
        if self.is_bytes:
            ch = self.c[i]
            return SInt(ch) if _is_sym(ch) else ch
        return self._mk([self.c[i]])

    def __add__(s, o):
        if not isinstance(o, (str, bytes, CStr)):
            return NotImplemented
        return s._mk(s.c + CStr.of(o).c)

    def __radd__(s, o):
        if not isinstance(o, (str, bytes, CStr)):
            return NotImplemented
        return s._mk(CStr.of(o).c + s.c)

    def __mul__(s, n):
        if isinstance(n, Sym):
            raise Unsupported('CStr * symbolic')
        return s._mk(s.c * n)

    def _eqz(s, o):
        o = CStr.of(o)
        if len(o.c) != len(s.c):
            return z3.BoolVal(False)
        cs = []
        for a, b in zip(s.c, o.c):
            if not _is_sym(a) and not _is_sym(b):
                if a != b:
                    return z3.BoolVal(False)
            else:
                cs.append(_cz(a) == _cz(b))
        if not cs:
            return z3.BoolVal(True)
        return z3.And(*cs) if len(cs) > 1 else cs[0]

    def __eq__(s, o):
        if isinstance(o, (str, bytes, CStr)):
            if isinstance(o, CStr):
                if o.is_bytes != s.is_bytes:
                    return False
            elif isinstance(o, bytes) != s.is_bytes:
                return False
            return SBool(s._eqz(o))
        return False

    def __ne__(s, o):
        r = s.__eq__(o)
        if isinstance(r, SBool):
            return SBool(z3.Not(r.z))
        return not r

    def __hash__(self):
        raise Unsupported('hash of symbolic string')

    def _lt(a, b):
        b = CStr.of(b)
        for x, y in zip(a.c, b.c):
            if E.branch(_cz(x) == _cz(y)):
                continue
            return E.branch(_cz(x) < _cz(y))
        return len(a.c) < len(b.c)

    def __lt__(a, b): return a._lt(b)
    def __gt__(a, b): return CStr.of(b)._lt(a)
    def __le__(a, b): return not CStr.of(b)._lt(a)
    def __ge__(a, b): return not a._lt(b)

    def startswith(s, p, *a):
        if a:
            raise Unsupported('startswith with offsets')
        if isinstance(p, tuple):
            zs = [s._mk(s.c[:len(CStr.of(q).c)])._eqz(q) if len(CStr.of(q).c) <= len(s.c) else z3.BoolVal(False) for q in p]
            return SBool(z3.Or(*zs))
        p = CStr.of(p)
        if len(p.c) > len(s.c):
            return False
        return s._mk(s.c[:len(p.c)]) == p

    def endswith(s, p, *a):
        if a:
            raise Unsupported('endswith with offsets')
        if isinstance(p, tuple):
            raise Unsupported('endswith tuple')
        p = CStr.of(p)
        if len(p.c) > len(s.c):
            return False
        if not p.c:
            return True
        return s._mk(s.c[-len(p.c):]) == p

    def find(s, sub, start=0):
        sub = CStr.of(sub)
        for i in range(start, len(s.c) - len(sub.c) + 1):
            if bool(s._mk(s.c[i:i + len(sub.c)]) == sub):
                return i
        return -1

    def rfind(s, sub):
        sub = CStr.of(sub)
        for i in range(len(s.c) - len(sub.c), -1, -1):
            if bool(s._mk(s.c[i:i + len(sub.c)]) == sub):
                return i
        return -1

    def index(s, sub):
        i = s.find(sub)
        if i < 0:
            raise ValueError('substring not found')
        return i

    def __contains__(s, sub):
        if isinstance(sub, (SInt, int)) and s.is_bytes:
            return bool(SBool(z3.Or(*[_cz(ch) == zint(sub) for ch in s.c]))) if s.c else False
        return s.find(sub) >= 0

    def count(s, sub):
        sub = CStr.of(sub)
        if not sub.c:
            raise Unsupported('count empty')
        n = 0; i = 0
        while i <= len(s.c) - len(sub.c):
            if bool(s._mk(s.c[i:i + len(sub.c)]) == sub):
                n += 1; i += len(sub.c)
            else:
                i += 1
        return n

    def split(s, sep=None, maxsplit=-1):
        if sep is None:
            # whitespace split
            out = []; cur = []
            for ch in s.c:
                if E.branch(_is_space(ch)):
                    if cur:
                        out.append(s._mk(cur)); cur = []
                else:
                    cur.append(ch)
            if cur:
                out.append(s._mk(cur))
            if maxsplit != -1:
                raise Unsupported('whitespace split with maxsplit')
            return out
        sep = CStr.of(sep)
        out = []; rest = s; n = 0
        while maxsplit < 0 or n < maxsplit:
            i = rest.find(sep)
            if i < 0:
                break
            out.append(s._mk(rest.c[:i]))
            rest = s._mk(rest.c[i + len(sep.c):])
            n += 1
        out.append(rest)
        return out

    def rsplit(s, sep=None, maxsplit=-1):
        if sep is None or maxsplit != 1:
            raise Unsupported('rsplit variant')
        sep = CStr.of(sep)
        i = s.rfind(sep)
        if i < 0:
            return [s]
        return [s._mk(s.c[:i]), s._mk(s.c[i + len(sep.c):])]

    def partition(s, sep):
        i = s.find(sep)
        if i < 0:
            return (s, s._mk([]), s._mk([]))
        n = len(CStr.of(sep).c)
        return (s._mk(s.c[:i]), s._mk(s.c[i:i + n]), s._mk(s.c[i + n:]))

    def rpartition(s, sep):
        i = s.rfind(sep)
        if i < 0:
            return (s._mk([]), s._mk([]), s)
        n = len(CStr.of(sep).c)
        return (s._mk(s.c[:i]), s._mk(s.c[i:i + n]), s._mk(s.c[i + n:]))

    def _ascii_guard(s, ch):
        if _is_sym(ch):
            if not E.branch(_cz(ch) < 128):
                raise Unsupported('case mapping of non-ASCII symbolic char')
        elif ch >= 128:
            return chr(ch)
        return None

    def lower(s):
        out = []
        for ch in s.c:
            if _is_sym(ch):
                s._ascii_guard(ch)
                out.append(z3.If(z3.And(ch >= 65, ch <= 90), ch + 32, ch))
            else:
                if ch < 128 or s.is_bytes:
                    out.append(ch + 32 if 65 <= ch <= 90 else ch)
                else:
                    lo = chr(ch).lower()
                    if len(lo) != 1:
                        raise Unsupported('lower() changes length')
                    out.append(ord(lo))
        return s._mk(out)

    def upper(s):
        out = []
        for ch in s.c:
            if _is_sym(ch):
                s._ascii_guard(ch)
                out.append(z3.If(z3.And(ch >= 97, ch <= 122), ch - 32, ch))
            else:
                if ch < 128 or s.is_bytes:
                    out.append(ch - 32 if 97 <= ch <= 122 else ch)
                else:
                    up = chr(ch).upper()
                    if len(up) != 1:
                        raise Unsupported('upper() changes length')
                    out.append(ord(up))
        return s._mk(out)

    def strip(s, chars=None):
        return s.lstrip(chars).rstrip(chars)

    def _strip_pred(s, ch, chars):
        if chars is None:
            return _is_space(ch)
        cs = CStr.of(chars).c
        return z3.Or(*[_cz(ch) == _cz(x) for x in cs]) if cs else z3.BoolVal(False)

    def lstrip(s, chars=None):
        i = 0
        while i < len(s.c) and E.branch(s._strip_pred(s.c[i], chars)):
            i += 1
        return s._mk(s.c[i:])

    def rstrip(s, chars=None):
        j = len(s.c)
        while j > 0 and E.branch(s._strip_pred(s.c[j - 1], chars)):
            j -= 1
        return s._mk(s.c[:j])

    def isdigit(s):
        if not s.c:
            return False
        return SBool(z3.And(*[z3.And(_cz(ch) >= 48, _cz(ch) <= 57) for ch in s.c]))

    def replace(s, old, new, count=-1):
        old = CStr.of(old); new = CStr.of(new)
        if not old.c:
            raise Unsupported('replace empty')
        out = []; i = 0; n = 0
        while i < len(s.c):
            if (count < 0 or n < count) and i <= len(s.c) - len(old.c) and \
                    bool(s._mk(s.c[i:i + len(old.c)]) == old):
                out += new.c; i += len(old.c); n += 1
            else:
                out.append(s.c[i]); i += 1
        return s._mk(out)

    def encode(s, encoding='utf-8', errors='strict'):
        if s.is_bytes:
            raise AttributeError("'bytes' object has no attribute 'encode'")
        enc = encoding.lower().replace('-', '').replace('_', '')
        out = []
        for ch in s.c:
            if _is_sym(ch):
                if E.branch(ch < 128):
                    out.append(ch)
                    continue
                if enc == 'ascii':
                    raise UnicodeEncodeError('ascii', u'?', 0, 1, 'ordinal not in range(128)')
                if enc not in ('utf8',):
                    raise Unsupported('encode(%s) of non-ASCII symbolic char' % encoding)
                c = SInt(ch)
                if E.branch(ch < 0x800):
                    out += [((c // 64) + 0xC0).z, ((c % 64) + 0x80).z]
                elif E.branch(z3.And(ch < 0x10000, z3.Or(ch < 0xD800, ch > 0xDFFF))):
                    out += [((c // 4096) + 0xE0).z, (((c // 64) % 64) + 0x80).z, ((c % 64) + 0x80).z]
                else:
                    raise Unsupported('utf-8 encoding of astral / surrogate symbolic char')
            elif ch < 128:
                out.append(ch)
            else:
                out += list(chr(ch).encode(encoding, errors))
        return CStr(out, intval=s.intval, is_bytes=True)

    def decode(s, encoding='utf-8', errors='strict'):
        if not s.is_bytes:
            raise AttributeError("'str' object has no attribute 'decode'")
        out = []
        run = []            # pending concrete bytes >= 0x80: decoded together when the run ends

        def flush():
            if run:
                if encoding.lower().replace('-', '').replace('_', '') not in ('utf8', 'latin1', 'iso88591'):
                    raise Unsupported('decode(%s) of non-ASCII bytes' % encoding)
                out.extend(ord(c) for c in bytes(run).decode(encoding, errors))      # (raises like the real decoder)
                del run[:]
        for ch in s.c:
            if _is_sym(ch):
                if not E.branch(ch < 128):
                    raise Unsupported('decode of non-ASCII symbolic byte')
                flush()
                out.append(ch)
            elif ch < 128:
                flush()
                out.append(ch)
            else:
                run.append(ch)
        flush()
        return CStr(out, intval=s.intval, is_bytes=False)

    def join(s, items):
        out = []
        first = True
        for it in items:
            if isinstance(it, (int, float)) or type(it).__name__ in ('SInt', 'SBool'):
                # str.join / bytes.join refuse numbers (iterating a bytes value yields its integers)
                raise TypeError('sequence item: expected %s instance, int found' % ('a bytes-like object' if s.is_bytes else 'str'))
            if not first:
                out += s.c
            out += CStr.of(it).c
            first = False
        return s._mk(out)

    def format(s, *a, **k):
        raise Unsupported('format on symbolic string')

    def __mod__(s, o):
        raise Unsupported('symbolic format string')

    def __str__(self):
        raise Unsupported('__str__ on symbolic string (C consumer)')

    def __bytes__(self):
        raise Unsupported('__bytes__ on symbolic string (C consumer)')

    def __repr__(self):
        return 'CStr(%r)' % (self.c,)

    def eval(s, model):
        from .core import model_int
        vals = [ch if not _is_sym(ch) else model_int(model, ch) for ch in s.c]
        if s.is_bytes:
            return bytes(v & 0xff for v in vals)
        return ''.join(chr(v) for v in vals)


def _is_space(ch):
    c = _cz(ch)
    return z3.Or(c == 32, z3.And(c >= 9, c <= 13), z3.And(c >= 28, c <= 31), c == 133, c == 160)


def digits_val(chars):
    tot = z3.IntVal(0)
    for ch in chars:
        tot = tot * 10 + (_cz(ch) - 48)
    return tot


def render_int(x, maxd=40):
    """str(int): decimal rendering as a CStr; forks over sign and digit count."""
    if isinstance(x, bool):
        return CStr.of(str(x))
    if isinstance(x, int):
        return CStr.of(str(x))
    neg = E.branch(x.z < 0)
    a = -x.z if neg else x.z
    nd = None
    for k in range(1, maxd + 1):
        if E.branch(a < 10 ** k):
            nd = k
            break
    if nd is None:
        raise BoundExceeded('integer rendering longer than %d digits' % maxd)
    pre = E.fresh_name('rd')
    ds = [z3.Int('%s_%d' % (pre, i)) for i in range(nd)]
    for d in ds:
        E.add(d >= 48); E.add(d <= 57)
        E.declare_range(d, 48, 57)
    if nd > 1:
        E.add(ds[0] != 48)
        E.declare_range(ds[0], 49, 57)
    E.add(digits_val(ds) == a)
    return CStr(([45] if neg else []) + ds, intval=x)


def render_int_padded(x, width):
    """'%0<width>d' % x for non-negative x (forks only if x may exceed the width)."""
    if isinstance(x, int):
        return CStr.of('%0*d' % (width, x))
    if E.branch(x.z < 0):
        r = render_int(SInt(-x.z), maxd=40)
        body = r.c[1:] if r.c and r.c[0] == 45 else r.c
        pad = [48] * max(0, width - 1 - len(body))
        return CStr([45] + pad + body)
    if E.branch(x.z < 10 ** width):
        pre = E.fresh_name('rp')
        ds = [z3.Int('%s_%d' % (pre, i)) for i in range(width)]
        for d in ds:
            E.add(d >= 48); E.add(d <= 57)
            E.declare_range(d, 48, 57)
        E.add(digits_val(ds) == x.z)
        return CStr(ds)
    return render_int(x)


def parse_int(x):
    """int(str): python's int() on a CStr (ASCII digits, optional sign, surrounding
    whitespace and underscores are treated as invalid -> ValueError, except that
    leading/trailing ASCII whitespace is accepted like CPython does)."""
    if x.intval is not None:
        return x.intval
    c = list(x.c)
    # CPython strips whitespace
    while c and E.branch(_is_space(c[0])):
        c = c[1:]
    while c and E.branch(_is_space(c[-1])):
        c = c[:-1]
    if not c:
        raise ValueError("invalid literal for int() with base 10: ''")
    neg = z3.BoolVal(False)
    if E.branch(z3.Or(_cz(c[0]) == 45, _cz(c[0]) == 43)):
        neg = _cz(c[0]) == 45
        c = c[1:]
        if not c:
            raise ValueError('invalid literal for int() with base 10: <sign only>')
    prev_us = True   # underscore not allowed at start
    digs = []
    for i, ch in enumerate(c):
        if E.branch(z3.And(_cz(ch) >= 48, _cz(ch) <= 57)):
            digs.append(ch); prev_us = False
            continue
        if not prev_us and i < len(c) - 1 and E.branch(_cz(ch) == 95):
            prev_us = True
            continue
        if _is_sym(ch) and E.branch(_cz(ch) > 127):
            # non-ASCII unicode digits exist (e.g. U+0660); outside the model
            raise Unsupported('int() of non-ASCII symbolic char')
        raise ValueError('invalid literal for int() with base 10: <symbolic>')
    v = digits_val(digs)
    return SInt(z3.simplify(z3.If(neg, -v, v)))


# ------------------------------------------------------------------ regex matcher
def _cat(ch, cat):
    c = _cz(ch)
    if cat is sre_c.CATEGORY_DIGIT:
        return z3.And(c >= 48, c <= 57)
    if cat is sre_c.CATEGORY_NOT_DIGIT:
        return z3.Not(z3.And(c >= 48, c <= 57))
    if cat is sre_c.CATEGORY_SPACE:
        return _is_space(ch)
    if cat is sre_c.CATEGORY_NOT_SPACE:
        return z3.Not(_is_space(ch))
    if cat is sre_c.CATEGORY_WORD:
        return z3.Or(z3.And(c >= 48, c <= 57), z3.And(c >= 65, c <= 90),
                     z3.And(c >= 97, c <= 122), c == 95)
    if cat is sre_c.CATEGORY_NOT_WORD:
        return z3.Not(z3.Or(z3.And(c >= 48, c <= 57), z3.And(c >= 65, c <= 90),
                            z3.And(c >= 97, c <= 122), c == 95))
    raise Unsupported('regex category %r' % (cat,))


def _nonascii_guard(ch, flags):
    """\\d, \\w, \\s on str patterns are Unicode-aware; the model is ASCII-exact only."""
    if _is_sym(ch):
        if E.branch(_cz(ch) > 127):
            raise Unsupported('unicode category test on non-ASCII symbolic char')
    elif ch > 127:
        raise Unsupported('unicode category test on non-ASCII char')


def _in_class(ch, items, flags, ignorecase):
    conds = []
    neg = False
    c = _cz(ch)
    for op, av in items:
        if op is sre_c.NEGATE:
            neg = True
        elif op is sre_c.LITERAL:
            conds.append(_lit(c, av, ignorecase))
        elif op is sre_c.RANGE:
            r = z3.And(c >= av[0], c <= av[1])
            if ignorecase:
                r = z3.Or(r, z3.And(_swap(c) >= av[0], _swap(c) <= av[1]))
            conds.append(r)
        elif op is sre_c.CATEGORY:
            if not (flags & re.ASCII):
                _nonascii_guard(ch, flags)
            conds.append(_cat(ch, av))
        else:
            raise Unsupported('regex class item %r' % (op,))
    r = z3.Or(*conds) if len(conds) != 1 else conds[0]
    return z3.Not(r) if neg else r


def _swap(c):
    return z3.If(z3.And(c >= 65, c <= 90), c + 32, z3.If(z3.And(c >= 97, c <= 122), c - 32, c))


def _lit(c, av, ignorecase):
    if ignorecase and (65 <= av <= 90 or 97 <= av <= 122):
        return z3.Or(c == av, c == (av ^ 32))
    return c == av


def _m(seq, i, s, pos, groups, k, flags):
    """match seq[i:] at pos; k(pos, groups) continuation -> result or None"""
    if i == len(seq):
        return k(pos, groups)
    op, av = seq[i]
    ic = bool(flags & re.IGNORECASE)

    def nxt(p, g):
        return _m(seq, i + 1, s, p, g, k, flags)

    if op is sre_c.LITERAL:
        if pos < len(s.c) and E.branch(_lit(_cz(s.c[pos]), av, ic)):
            return nxt(pos + 1, groups)
        return None
    if op is sre_c.NOT_LITERAL:
        if pos < len(s.c) and E.branch(z3.Not(_lit(_cz(s.c[pos]), av, ic))):
            return nxt(pos + 1, groups)
        return None
    if op is sre_c.IN:
        if pos < len(s.c) and E.branch(_in_class(s.c[pos], av, flags, ic)):
            return nxt(pos + 1, groups)
        return None
    if op is sre_c.ANY:
        if pos < len(s.c):
            if flags & re.DOTALL or E.branch(_cz(s.c[pos]) != 10):
                return nxt(pos + 1, groups)
        return None
    if op is sre_c.SUBPATTERN:
        gid, add_flags, del_flags, sub = av

        def after(p, g):
            g2 = dict(g)
            if gid is not None:
                g2[gid] = (pos, p)
            return nxt(p, g2)
        return _m(list(sub), 0, s, pos, groups, after, (flags | add_flags) & ~del_flags)
    if op is sre_c.BRANCH:
        for b in av[1]:
            r = _m(list(b), 0, s, pos, groups, nxt, flags)
            if r is not None:
                return r
        return None
    if op in (sre_c.MAX_REPEAT, sre_c.MIN_REPEAT):
        lo, hi, sub = av
        sub = list(sub)
        greedy = op is sre_c.MAX_REPEAT

        def rep(count, p, g):
            def try_more():
                if hi is sre_c.MAXREPEAT or count < hi:
                    def more(p2, g2):
                        if p2 == p and count >= lo:
                            return None
                        return rep(count + 1, p2, g2)
                    return _m(sub, 0, s, p, g, more, flags)
                return None
            if greedy:
                r = try_more()
                if r is not None:
                    return r
                if count >= lo:
                    return nxt(p, g)
                return None
            if count >= lo:
                r = nxt(p, g)
                if r is not None:
                    return r
            return try_more()
        return rep(0, pos, groups)
    if op is sre_c.AT:
        if av in (sre_c.AT_END_STRING,):
            return nxt(pos, groups) if pos == len(s.c) else None
        if av is sre_c.AT_END:
            if pos == len(s.c):
                return nxt(pos, groups)
            if pos == len(s.c) - 1 and E.branch(_cz(s.c[pos]) == 10):
                return nxt(pos, groups)
            return None
        if av in (sre_c.AT_BEGINNING, sre_c.AT_BEGINNING_STRING):
            return nxt(pos, groups) if pos == 0 else None
    raise Unsupported('regex op %r' % (op,))


class CMatch(object):
    def __init__(self, s, groups, names, start, end, ngroups):
        self.s = s; self.g = groups; self.names = names
        self.start_ = start; self.end_ = end; self.ngroups = ngroups
        self.string = s

    def group(self, *ks):
        if not ks:
            ks = (0,)
        out = []
        for k in ks:
            if k == 0:
                out.append(self.s._mk(self.s.c[self.start_:self.end_])); continue
            if isinstance(k, str):
                k = self.names[k]
            if k not in self.g:
                out.append(None); continue
            a, b = self.g[k]
            out.append(self.s._mk(self.s.c[a:b]))
        return out[0] if len(out) == 1 else tuple(out)

    def groups(self, default=None):
        return tuple(self.group(i) if i in self.g else default for i in range(1, self.ngroups + 1))

    def groupdict(self, default=None):
        out = {}
        for n, i in self.names.items():
            v = self.group(i)
            out[n] = default if v is None else v
        return out

    def span(self, k=0):
        if k == 0:
            return (self.start_, self.end_)
        if isinstance(k, str):
            k = self.names[k]
        return self.g.get(k, (-1, -1))

    def start(self, k=0):
        return self.span(k)[0]

    def end(self, k=0):
        return self.span(k)[1]


_parse_cache = {}


def _parse(pat):
    key = (pat.pattern, pat.flags)
    t = _parse_cache.get(key)
    if t is None:
        t = sre_parse.parse(pat.pattern, pat.flags)
        _parse_cache[key] = t
    return t


def re_match_at(pat, s, pos, full=False):
    tree = _parse(pat)
    if isinstance(pat.pattern, bytes) != s.is_bytes:
        raise TypeError('cannot use a %s pattern on a %s-like object' % (
            'bytes' if isinstance(pat.pattern, bytes) else 'string', 'bytes' if s.is_bytes else 'string'))

    def done(p, g):
        if full and p != len(s.c):
            return None
        return (p, g)
    flags = pat.flags
    if isinstance(pat.pattern, bytes):
        flags |= re.ASCII
    r = _m(list(tree), 0, s, pos, {}, done, flags)
    if r is None:
        return None
    return CMatch(s, r[1], dict(tree.state.groupdict), pos, r[0], tree.state.groups - 1)


def re_match(pat, s, full=False):
    return re_match_at(pat, s, 0, full)


def re_search(pat, s):
    for pos in range(len(s.c) + 1):
        m = re_match_at(pat, s, pos)
        if m is not None:
            return m
    return None


def re_finditer(pat, s):
    pos = 0
    out = []
    while pos <= len(s.c):
        m = re_match_at(pat, s, pos)
        if m is None:
            pos += 1
            continue
        out.append(m)
        pos = m.end_ if m.end_ > pos else pos + 1
    return out


def re_sub(pat, repl, s, count=0):
    if isinstance(repl, CStr) or callable(repl):
        raise Unsupported('re.sub with symbolic/callable replacement')
    if '\\' in repl if isinstance(repl, str) else b'\\' in repl:
        raise Unsupported('re.sub with group references')
    rc = CStr.of(repl).c
    out = []
    last = 0
    n = 0
    for m in re_finditer(pat, s):
        if count and n >= count:
            break
        out += s.c[last:m.start_] + rc
        last = m.end_
        n += 1
    out += s.c[last:]
    return s._mk(out)


def re_findall(pat, s):
    res = []
    for m in re_finditer(pat, s):
        if pat.groups == 0:
            res.append(m.group(0))
        elif pat.groups == 1:
            g = m.group(1)
            res.append(g if g is not None else s._mk([]))
        else:
            res.append(tuple(x if x is not None else s._mk([]) for x in m.groups()))
    return res


def re_split(pat, s, maxsplit=0):
    if pat.groups:
        raise Unsupported('re.split with groups')
    out = []
    last = 0
    n = 0
    for m in re_finditer(pat, s):
        if m.end_ == m.start_:
            raise Unsupported('re.split empty match')
        if maxsplit and n >= maxsplit:
            break
        out.append(s._mk(s.c[last:m.start_]))
        last = m.end_
        n += 1
    out.append(s._mk(s.c[last:]))
    return out


# ------------------------------------------------------------------ non-forking membership
def _and(a, b):
    if a is False or b is False:
        return False
    if a is True:
        return b
    if b is True:
        return a
    return z3.And(a, b)


def _or(a, b):
    if a is True or b is True:
        return True
    if a is False:
        return b
    if b is False:
        return a
    return z3.Or(a, b)


def _qb(cond):
    """z3 Bool -> python bool when decidable from declared domains, else the term"""
    cond = z3.simplify(cond)
    if z3.is_true(cond):
        return True
    if z3.is_false(cond):
        return False
    q = E.quick(cond)
    return cond if q is None else q


def _merge(out, pos, cond):
    if cond is False:
        return
    out[pos] = _or(out.get(pos, False), cond)


def _char_test(op, av, ch, flags):
    ic = bool(flags & re.IGNORECASE)
    c = _cz(ch)
    if op is sre_c.LITERAL:
        return _qb(_lit(c, av, ic))
    if op is sre_c.NOT_LITERAL:
        return _qb(z3.Not(_lit(c, av, ic)))
    if op is sre_c.ANY:
        return True if flags & re.DOTALL else _qb(c != 10)
    if op is sre_c.IN:
        for iop, iav in av:
            if iop is sre_c.CATEGORY and not (flags & re.ASCII):
                if z3.is_expr(ch):
                    if _qb(c > 127) is not False:
                        raise Unsupported('unicode category test on possibly non-ASCII symbolic char')
                elif ch > 127:
                    raise Unsupported('unicode category test on non-ASCII char')
        return _qb(_in_class(ch, [x for x in av], flags | re.ASCII, ic))
    raise Unsupported('regex op %r' % (op,))


def _ms(seq, s, starts, flags):
    cur = starts
    n = len(s.c)
    for op, av in seq:
        if not cur:
            return {}
        out = {}
        if op in (sre_c.LITERAL, sre_c.NOT_LITERAL, sre_c.ANY, sre_c.IN):
            for pos, c in cur.items():
                if pos < n:
                    _merge(out, pos + 1, _and(c, _char_test(op, av, s.c[pos], flags)))
        elif op is sre_c.SUBPATTERN:
            gid, add_flags, del_flags, sub = av
            out = _ms(list(sub), s, cur, (flags | add_flags) & ~del_flags)
        elif op is sre_c.BRANCH:
            for b in av[1]:
                for pos, c in _ms(list(b), s, cur, flags).items():
                    _merge(out, pos, c)
        elif op in (sre_c.MAX_REPEAT, sre_c.MIN_REPEAT):
            lo, hi, sub = av
            sub = list(sub)
            it = cur
            i = 0
            while True:
                if i >= lo:
                    for pos, c in it.items():
                        _merge(out, pos, c)
                if (hi is not sre_c.MAXREPEAT and i >= hi) or not it or i > n + lo:
                    break
                nxt = _ms(sub, s, it, flags)
                if i >= lo:
                    # drop non-progressing iterations (empty matches add nothing new)
                    nxt = {p: c for p, c in nxt.items() if not (p in it and it[p] is c)}
                it = nxt
                i += 1
        elif op is sre_c.AT:
            if av in (sre_c.AT_END_STRING, sre_c.AT_END):
                out = {p: c for p, c in cur.items() if p == n}
            elif av in (sre_c.AT_BEGINNING, sre_c.AT_BEGINNING_STRING):
                out = {p: c for p, c in cur.items() if p == 0}
            else:
                raise Unsupported('regex anchor %r' % (av,))
        else:
            raise Unsupported('regex op %r in membership test' % (op,))
        cur = out
    return cur


def re_member(pat, s):
    """s in L(pat) (whole string) as a python bool or z3 Bool; never forks"""
    if isinstance(pat, str):
        pat = re.compile(pat)
    tree = _parse(pat)
    ends = _ms(list(tree), s, {0: True}, pat.flags)
    return ends.get(len(s.c), False)

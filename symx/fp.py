"""Floating-point kernels of the fractional-second codecs, decided assume-guarantee style.

The integer/character reasoning of a path lives in linear integer arithmetic.  Where the
real code converts an expression over float(text) to an int, the result becomes an integer
term justified by a separate lemma about IEEE-754 doubles:

  ROUND  int(round(float(t) * 1e6))            == exact (when exact is an integer < 2**52)
  ROUNDF int(round(1e6 * modf(float(t))[0]))   == exact
  TRUNC  int(float(t) * 1e6), int(1e6 * modf(float(t))[0])  in {exact-1, exact}

ROUND/ROUNDF are proved by a real-arithmetic relaxation of IEEE rounding
(fl(x) = x(1+e), |e| <= 2**-53), discharged by z3 once per process.  TRUNC is not exact in
general; the relaxation is used for the path and a bit-precise QF_BVFP query looks for a
concrete deviating numeral which is offered to the counterexample search as a hint, so a
reported counterexample reproduces on the real code.
"""
import time
import z3
from .core import E, SInt, Unsupported

_cache = {}
STATS = {'lemmas': 0, 'lemma_time': 0.0, 'bitprecise': 0, 'bitprecise_time': 0.0}
U = z3.RealVal(1) / z3.RealVal(2 ** 53)


def _lemma_round(maxN):
    """for all 0 <= N <= maxN and roundings e1, e2, e3: |N(1+e1)(1+e2)(1+e3) - N| < 1/2"""
    key = ('round', maxN)
    if key in _cache:
        return _cache[key]
    t = time.time()
    s = z3.Solver()
    s.set('timeout', 60000)
    N, e1, e2, e3 = z3.Reals('N e1 e2 e3')
    s.add(N >= 0, N <= maxN)
    for e in (e1, e2, e3):
        s.add(e >= -U, e <= U)
    p = N * (1 + e1) * (1 + e2) * (1 + e3)
    s.add(z3.Or(p - N >= z3.RealVal(1) / 2, N - p >= z3.RealVal(1) / 2))
    r = s.check()
    STATS['lemmas'] += 1
    STATS['lemma_time'] += time.time() - t
    E.nq += 1
    if r == z3.unsat:
        E.nq_unsat += 1
    ok = (r == z3.unsat)
    _cache[key] = ok
    return ok


def require_modf_exact(fr):
    if fr.intdigits is None or fr.intdigits > 7 or fr.k > 9:
        raise Unsupported('modf(float) outside the modelled range (int digits <= 7, fraction digits <= 9)')


def _trunc_witness(k, frac_only, intdigits):
    """bit-precise search for a numeral whose truncated kernel deviates from the exact value.
    Returns (num, result) or None (unsat) or 'unknown'."""
    key = ('trunc', k, frac_only, intdigits)
    if key in _cache:
        return _cache[key]
    t = time.time()
    RNE = z3.RNE()
    D = z3.Float64()
    s = z3.Solver()
    s.set('timeout', 90000)
    n = z3.BitVec('n', 64)
    total_digits = k + (intdigits if frac_only else 0)
    s.add(z3.ULT(n, 10 ** max(total_digits, 1)))
    x = z3.fpDiv(RNE, z3.fpSignedToFP(RNE, n, D), z3.FPVal(float(10 ** k), D))
    if frac_only:
        ip = z3.fpRoundToIntegral(z3.RTZ(), x)
        f = z3.fpSub(RNE, x, ip)
        exact = z3.URem(n, z3.BitVecVal(10 ** k, 64)) * z3.BitVecVal(10 ** (6 - k), 64)
    else:
        f = x
        exact = n * z3.BitVecVal(10 ** (6 - k), 64)
    p = z3.fpMul(RNE, z3.FPVal(1e6, D), f)
    r = z3.fpToSBV(z3.RTZ(), p, z3.BitVecSort(64))
    s.add(r != exact)
    res = s.check()
    STATS['bitprecise'] += 1
    STATS['bitprecise_time'] += time.time() - t
    E.nq += 1
    if res == z3.sat:
        E.nq_sat += 1
        m = s.model()
        out = (m.eval(n).as_long(), m.eval(r).as_signed_long())
    elif res == z3.unsat:
        E.nq_unsat += 1
        out = None
    else:
        E.nq_unknown += 1
        out = 'unknown'
    _cache[key] = out
    return out


def int_of(fr):
    """int(<float expression>)"""
    ex = fr.expr
    k = fr.k
    num = fr.num
    if ex in (('x', 'mul1e6', 'round'), ('frac', 'mul1e6', 'round')):
        frac_only = ex[0] == 'frac'
        n = num % (10 ** k) if frac_only else num
        if k <= 6:
            maxN = 10 ** 6 * (1 if (frac_only or not fr.intdigits) else 10 ** fr.intdigits)
            if maxN > 2 ** 50 or not _lemma_round(maxN):
                raise Unsupported('rounding lemma failed')
            return SInt(n * 10 ** (6 - k))
        if k > 15:
            raise Unsupported('more than 15 fraction digits')
        S = 10 ** (k - 6)
        r = z3.Int(E.fresh_name('fround'))
        E.add(z3.And(2 * S * r >= 2 * n - S - 2, 2 * S * r <= 2 * n + S + 2, r >= 0))
        return SInt(r)
    if ex in (('x', 'mul1e6'), ('frac', 'mul1e6')):
        frac_only = ex[0] == 'frac'
        n = num % (10 ** k) if frac_only else num
        r = z3.Int(E.fresh_name('ftrunc'))
        if k <= 6:
            N = n * 10 ** (6 - k)
            E.add(z3.And(r >= N - 1, r <= N, r >= 0))
            w = _trunc_witness(k, frac_only, fr.intdigits or 0)
            if w is None:
                E.add(r == N)
            elif w != 'unknown':
                E.hints.append(z3.And(num == w[0], r == w[1]))
            return SInt(r)
        if k > 15:
            raise Unsupported('more than 15 fraction digits')
        S = 10 ** (k - 6)
        E.add(z3.And(S * r >= n - 2 * S, S * r <= n + S, r >= 0))
        return SInt(r)
    if ex == ('x',):
        if k == 0:
            return SInt(num)
        return SInt(num / (10 ** k))       # int(float) truncates; exact for <= 15 digits
    raise Unsupported('int() of float expression %r' % (ex,))

"""Symbolic-mode harness context."""
import re
import z3
from .core import (E, Sym, SBool, SInt, Unsupported, PathAbort, BoundExceeded, zbool, zb, zint,
                   concretize, model_int)
from .strs import CStr, render_int, digits_val, re_match, _cz
from .shim import SBlob, pytype_of
from .api import _plain


class OutsideClaimPath(PathAbort):
    pass


class SymCtx(object):
    symbolic = True

    def __init__(self, tier='quick'):
        self.tier = tier

    # -- inputs
    def int(self, name, lo=None, hi=None):
        v = z3.Int(name)
        if lo is not None:
            E.add(v >= lo)
        if hi is not None:
            E.add(v <= hi)
        E.declare_range(v, lo, hi)
        E.inputs[name] = ('int', v)
        return SInt(v)

    def bool(self, name):
        v = z3.Bool(name)
        E.inputs[name] = ('bool', v)
        return SBool(v)

    def text(self, name, length, alphabet=None, lo=32, hi=126, bytes_=False):
        cs = [z3.Int('%s[%d]' % (name, i)) for i in range(length)]
        for ch in cs:
            if alphabet is not None:
                codes = sorted(set(ord(a) if isinstance(a, str) else a for a in alphabet))
                E.add(_in_codes(ch, codes))
                E.declare_domain(ch, codes)
            else:
                E.add(ch >= lo)
                E.add(ch <= hi)
                E.declare_range(ch, lo, hi)
        s = CStr(cs, is_bytes=bytes_)
        E.inputs[name] = ('bytes' if bytes_ else 'str', s)
        return s

    def char(self, name, alphabet=None, lo=32, hi=126):
        return self.text(name, 1, alphabet, lo, hi)

    def digits(self, name, n):
        return self.text(name, n, '0123456789')

    def blob(self, name, maxlen=None):
        v = z3.Int(name)
        E.add(v >= 0)
        if maxlen is not None:
            E.add(v <= maxlen)
        E.inputs[name] = ('int', v)
        return SBlob(SInt(v))

    def choose(self, name, options):
        n = options if isinstance(options, int) else len(options)
        c = E.choose(n)
        E.inputs[name] = ('choice', c)
        return c if isinstance(options, int) else options[c]

    # -- structured inputs (stdlib values)
    def date(self, name, ymin=1, ymax=9999):
        from .stdmodels import SDate, _days_in_month
        y, m, d = self.int(name + '_y', ymin, ymax), self.int(name + '_m', 1, 12), self.int(name + '_d', 1, 31)
        E.add(d.z <= _days_in_month(y.z, m.z))
        return SDate(y, m, d, True)

    def time(self, name, tz='naive', offset_range=(-840, 840)):
        from .stdmodels import STime, SFixedOffset
        import pytz
        tzinfo = None
        if tz == 'utc':
            tzinfo = pytz.utc
        elif tz == 'offset':
            tzinfo = SFixedOffset(self.int(name + '_off', *offset_range))
        return STime(self.int(name + '_H', 0, 23), self.int(name + '_M', 0, 59),
                     self.int(name + '_S', 0, 59), self.int(name + '_us', 0, 999999), tzinfo, True)

    def datetime(self, name, tz='naive', ymin=1, ymax=9999, offset_range=(-840, 840)):
        from .stdmodels import SDateTime, SFixedOffset, _days_in_month
        import pytz
        y, m, d = self.int(name + '_y', ymin, ymax), self.int(name + '_m', 1, 12), self.int(name + '_d', 1, 31)
        E.add(d.z <= _days_in_month(y.z, m.z))
        H, M, S, us = (self.int(name + '_H', 0, 23), self.int(name + '_M', 0, 59),
                       self.int(name + '_S', 0, 59), self.int(name + '_us', 0, 999999))
        tzinfo = None
        if tz == 'utc':
            tzinfo = pytz.utc
        elif tz == 'offset':
            tzinfo = SFixedOffset(self.int(name + '_off', *offset_range))
        return SDateTime(y, m, d, H, M, S, us, tzinfo, True)

    def timedelta(self, name, maxdays=999999999):
        from .stdmodels import STimeDelta
        d, sc, us = (self.int(name + '_days', -maxdays, maxdays), self.int(name + '_s', 0, 86399),
                     self.int(name + '_us', 0, 999999))
        return STimeDelta(_total=(d.z * 86400 + sc.z) * 1000000 + us.z, _norm=(d.z, sc.z, us.z))

    def decimal(self, name, ndigits, exp):
        from .stdmodels import SDecimal
        neg = self.bool(name + '_neg')
        digs = self.digits(name + '_digits', ndigits)
        if ndigits > 1:
            E.add(digs.c[0] != 48)
        return SDecimal(neg.z, digs, exp)

    def mkdict(self, pairs):
        from .shim import SDict
        d = SDict()
        for k, v in pairs:
            if isinstance(k, Sym):
                d._sk.append(k); d._sv.append(v)     # keys are assumed pairwise distinct by the harness
            else:
                d[k] = v
        return d

    def offset_minutes(self, dt):
        from .stdmodels import tz_minutes
        if isinstance(dt, Sym):
            return tz_minutes(dt.tzinfo)
        off = dt.utcoffset()
        if off is None:
            return None
        return off.days * 1440 + off.seconds // 60

    def td_microseconds(self, td):
        if isinstance(td, Sym):
            return SInt(td.total)
        return (td.days * 86400 + td.seconds) * 1000000 + td.microseconds

    # -- control
    def assume(self, c):
        E.assume(c)

    def outside(self, reason):
        raise OutsideClaimPath(reason)

    def observe(self, key, val):
        E.observed.append((key, val))

    def concretize(self, x, lo, hi):
        return concretize(x, lo, hi)

    # -- logic helpers
    def And(self, *a):
        zs = [zbool(x) for x in a]
        if any(z is False for z in zs):
            return False
        zs = [z for z in zs if z is not True]
        if not zs:
            return True
        return SBool(z3.And(*zs) if len(zs) > 1 else zs[0])

    def Or(self, *a):
        zs = [zbool(x) for x in a]
        if any(z is True for z in zs):
            return True
        zs = [z for z in zs if z is not False]
        if not zs:
            return False
        return SBool(z3.Or(*zs) if len(zs) > 1 else zs[0])

    def Not(self, a):
        z = zbool(a)
        if z is True:
            return False
        if z is False:
            return True
        return SBool(z3.Not(z))

    def Implies(self, a, b):
        return self.Or(self.Not(a), b)

    def ite(self, c, a, b):
        z = zbool(c)
        if z is True:
            return a
        if z is False:
            return b
        if isinstance(a, (SBool, bool)) and isinstance(b, (SBool, bool)):
            return SBool(z3.If(z, zb(a), zb(b)))
        if isinstance(a, (SInt, int)) and isinstance(b, (SInt, int)):
            return SInt(z3.If(z, zint(a), zint(b)))
        return a if E.branch(z) else b

    def eq(self, a, b):
        """value equality of two leaves (no forking)"""
        if isinstance(a, CStr) or isinstance(b, CStr):
            if not isinstance(a, (str, bytes, CStr)) or not isinstance(b, (str, bytes, CStr)):
                return False
            r = (a == b) if isinstance(a, CStr) else (b == a)
            return r
        if isinstance(a, (SInt, SBool)) or isinstance(b, (SInt, SBool)):
            if a is None or b is None:
                return False
            if isinstance(a, (bool, SBool)) != isinstance(b, (bool, SBool)):
                return False
            if isinstance(a, (bool, SBool)):
                return SBool(zb(a) == zb(b))
            if not isinstance(a, (int, SInt)) or not isinstance(b, (int, SInt)):
                return False
            return SBool(zint(a) == zint(b))
        if isinstance(a, Sym) or isinstance(b, Sym):
            if hasattr(a, '__sx_eq__'):
                return a.__sx_eq__(b)
            if hasattr(b, '__sx_eq__'):
                return b.__sx_eq__(a)
            raise Unsupported('eq of %r and %r' % (type(a), type(b)))
        if type(a) in (str, bytes) or type(b) in (str, bytes):
            return type(a) is type(b) and a == b
        if a is None or b is None:
            return a is b
        if isinstance(a, bool) != isinstance(b, bool):
            return False
        return a == b

    def is_int(self, x):
        if isinstance(x, Sym):
            return pytype_of(x) is int
        return isinstance(x, int) and not isinstance(x, bool)

    def is_str(self, x):
        if isinstance(x, Sym):
            return pytype_of(x) is str
        return isinstance(x, str)

    def is_bytes(self, x):
        if isinstance(x, Sym):
            return pytype_of(x) is bytes
        return isinstance(x, bytes)

    def is_bool(self, x):
        if isinstance(x, Sym):
            return pytype_of(x) is bool
        return isinstance(x, bool)

    def length(self, x):
        if isinstance(x, CStr):
            return len(x.c)
        if isinstance(x, SBlob):
            return x.n
        return len(x)

    def matches(self, regex, text):
        """full match of a *concrete* regular expression against a (symbolic) text; no forking"""
        if isinstance(text, CStr):
            from .strs import re_member
            r = re_member(regex, text)
            return r if isinstance(r, bool) else SBool(r)
        return re.fullmatch(regex, text) is not None

    def digits_value(self, text):
        """positional value of a string of ASCII digits (oracle side, no forking)"""
        if isinstance(text, CStr):
            return SInt(digits_val(text.c))
        return int(text) if text else 0

    def render(self, v):
        if isinstance(v, SInt):
            return render_int(v)
        return str(v)


def _in_codes(ch, codes):
    # compress into ranges
    rs = []
    start = prev = codes[0]
    for c in codes[1:]:
        if c == prev + 1:
            prev = c
            continue
        rs.append((start, prev)); start = prev = c
    rs.append((start, prev))
    terms = [(ch == a) if a == b else z3.And(ch >= a, ch <= b) for a, b in rs]
    return z3.Or(*terms) if len(terms) > 1 else terms[0]


def eval_inputs(model):
    """concrete inputs of the current path under `model`"""
    out = {}
    for name, (kind, v) in E.inputs.items():
        if kind == 'int':
            out[name] = model_int(model, v)
        elif kind == 'bool':
            out[name] = bool(model_int(model, v))
        elif kind == 'str':
            out[name] = v.eval(model)
        elif kind == 'bytes':
            out[name] = v.eval(model).decode('latin-1')
        elif kind == 'choice':
            out[name] = v
    return {'vars': out, 'choices': list(E.choices)}


def eval_value(model, v):
    if isinstance(v, SInt):
        r = model_int(model, v.z)
        return repr(float(r)) if v.is_float else r
    if isinstance(v, SBool):
        return bool(model_int(model, v.z))
    if isinstance(v, CStr):
        r = v.eval(model)
        return _plain(r)
    if hasattr(v, '__sx_eval__'):
        return _plain(v.__sx_eval__(model))
    if isinstance(v, (list, tuple)):
        return [eval_value(model, x) for x in v]
    if isinstance(v, dict):
        return {str(k): eval_value(model, x) for k, x in v.items()}
    return _plain(v)

"""Executable models of stdlib C types / functions that may receive a proxy:
datetime.date/time/datetime/timedelta, pytz.FixedOffset, time.strptime('%Y-%m-%d'),
decimal.Decimal (construction from text, __str__, comparison), float(text) kernels.

Written from the CPython documentation / _pydatetime / _pydecimal.  Every explored path's
witness is replayed on the real C implementations by the runner, so a wrong model shows
up as a model mismatch, never as a silent pass."""
import re
import time as _time
import decimal
import datetime as _dt
import z3

from .core import (E, Sym, SBool, SInt, Unsupported, PathAbort, BoundExceeded, zint, zb, zbool,
                   concretize, model_int)
from .strs import (CStr, render_int, render_int_padded, parse_int, digits_val, re_match, _cz)

NO_MODEL = object()
_DISPATCH = []


def register(fn):
    _DISPATCH.append(fn)
    return fn


def dispatch(f, slf, args, kw):
    for d in _DISPATCH:
        r = d(f, slf, args, kw)
        if r is not NO_MODEL:
            return r
    return NO_MODEL


def _I(x):
    """int-like -> z3 Int term"""
    return zint(x)


def _sym(x):
    return isinstance(x, Sym)


def _req_int(x, what):
    if isinstance(x, SInt):
        if x.is_float:
            raise TypeError("'float' object cannot be interpreted as an integer")
        return x
    if isinstance(x, SBool):
        return SInt(z3.If(x.z, 1, 0))
    if isinstance(x, bool):
        return int(x)
    if isinstance(x, int):
        return x
    if isinstance(x, CStr) or isinstance(x, (str, bytes, float)) or x is None:
        raise TypeError("'%s' object cannot be interpreted as an integer (%s)" % (type(x).__name__, what))
    raise Unsupported('date/time field of type %r' % (type(x),))


def _check(cond, exc):
    """cond: z3 Bool or python bool.  Raises exc on the negative branch."""
    if not E.branch(zbool(cond)) if not isinstance(cond, bool) else not cond:
        raise exc


def _is_leap(y):
    return z3.And(y % 4 == 0, z3.Or(y % 100 != 0, y % 400 == 0))


_DIM = [31, 28, 31, 30, 31, 30, 31, 31, 30, 31, 30, 31]
_DBM = [0]
for _d in _DIM[:-1]:
    _DBM.append(_DBM[-1] + _d)


def _days_in_month(y, m):
    e = z3.IntVal(31)
    for i in range(11, 0, -1):
        d = _DIM[i - 1]
        if i == 2:
            v = z3.If(_is_leap(y), 29, 28)
        else:
            v = z3.IntVal(d)
        e = z3.If(m == i, v, e)
    return e


def _days_before_month(y, m):
    e = z3.IntVal(_DBM[11])
    for i in range(11, 0, -1):
        e = z3.If(m == i, z3.IntVal(_DBM[i - 1]), e)
    return e + z3.If(z3.And(m > 2, _is_leap(y)), 1, 0)


def _ymd2ord(y, m, d):
    y1 = y - 1
    return y1 * 365 + y1 / 4 - y1 / 100 + y1 / 400 + _days_before_month(y, m) + d


def _pad(x, w):
    return render_int_padded(x if isinstance(x, SInt) else int(x), w) if isinstance(x, SInt) \
        else CStr.of('%0*d' % (w, x))


def _valid_date(y, m, d):
    y, m, d = _req_int(y, 'year'), _req_int(m, 'month'), _req_int(d, 'day')
    zy, zm, zd = _I(y), _I(m), _I(d)
    _check(z3.And(zy >= 1, zy <= 9999), ValueError('year is out of range'))
    _check(z3.And(zm >= 1, zm <= 12), ValueError('month must be in 1..12'))
    _check(z3.And(zd >= 1, zd <= _days_in_month(zy, zm)), ValueError('day is out of range for month'))
    return y, m, d


def _valid_time(H, M, S, us):
    H, M, S, us = [_req_int(x, n) for x, n in ((H, 'hour'), (M, 'minute'), (S, 'second'), (us, 'microsecond'))]
    _check(z3.And(_I(H) >= 0, _I(H) <= 23), ValueError('hour must be in 0..23'))
    _check(z3.And(_I(M) >= 0, _I(M) <= 59), ValueError('minute must be in 0..59'))
    _check(z3.And(_I(S) >= 0, _I(S) <= 59), ValueError('second must be in 0..59'))
    _check(z3.And(_I(us) >= 0, _I(us) <= 999999), ValueError('microsecond must be in 0..999999'))
    return H, M, S, us


def _mi(model, x):
    return model_int(model, x.z) if isinstance(x, SInt) else x


class SFixedOffset(Sym):
    """pytz.FixedOffset(minutes) with symbolic minutes (|minutes| < 1440 checked at construction)"""
    _pytype = _dt.tzinfo

    def __init__(self, minutes):
        self.minutes = minutes

    def utcoffset_minutes(self):
        return self.minutes

    def __sx_eval__(self, model):
        return 'FixedOffset(%d)' % _mi(model, self.minutes)

    def __hash__(self):
        raise Unsupported('hash of symbolic tzinfo')


def tz_minutes(tz, naive_fields=None):
    """utc offset in minutes of a tzinfo usable by the model (fixed offsets only)"""
    if tz is None:
        return None
    if isinstance(tz, SFixedOffset):
        return tz.minutes
    try:
        import pytz
        if tz is pytz.utc or tz is _dt.timezone.utc:
            return 0
        if isinstance(tz, pytz._FixedOffset):
            return int(tz._minutes)
    except ImportError:
        pass
    if isinstance(tz, _dt.timezone):
        s = tz.utcoffset(None).total_seconds()
        if s % 60:
            raise Unsupported('sub-minute utc offset')
        return int(s // 60)
    raise Unsupported('tzinfo %r is not a fixed offset' % (tz,))


def _offset_text(mins):
    """'+HH:MM' for an offset in minutes (|mins| < 1440)"""
    if isinstance(mins, SInt):
        neg = E.branch(mins.z < 0)
        a = SInt(-mins.z) if neg else mins
        return CStr.of('-' if neg else '+') + _pad(a // 60, 2) + ':' + _pad(a % 60, 2)
    a = abs(mins)
    return CStr.of('%s%02d:%02d' % ('-' if mins < 0 else '+', a // 60, a % 60))


class SDate(Sym):
    _pytype = _dt.date

    def __init__(self, y, m, d, _checked=False):
        if not _checked:
            y, m, d = _valid_date(y, m, d)
        self.year, self.month, self.day = y, m, d

    def isoformat(self):
        return _pad(self.year, 4) + '-' + _pad(self.month, 2) + '-' + _pad(self.day, 2)

    __sx_str__ = isoformat

    def _key(self):
        return _I(self.year) * 10000 + _I(self.month) * 100 + _I(self.day)

    def _cmp(self, o, op):
        if isinstance(o, SDateTime) or (isinstance(o, _dt.datetime)):
            raise TypeError("can't compare datetime.datetime to datetime.date")
        if isinstance(o, _dt.date):
            o = SDate(o.year, o.month, o.day, True)
        if not isinstance(o, SDate):
            return NotImplemented
        return SBool(op(self._key(), o._key()))

    def __lt__(s, o): return s._cmp(o, lambda a, b: a < b)
    def __le__(s, o): return s._cmp(o, lambda a, b: a <= b)
    def __gt__(s, o): return s._cmp(o, lambda a, b: a > b)
    def __ge__(s, o): return s._cmp(o, lambda a, b: a >= b)

    def __eq__(s, o):
        r = s._cmp(o, lambda a, b: a == b) if not isinstance(o, (SDateTime, _dt.datetime)) else False
        return False if r is NotImplemented else r

    def __ne__(s, o):
        r = s.__eq__(o)
        return SBool(z3.Not(r.z)) if isinstance(r, SBool) else not r

    def __sx_eq__(s, o):
        return s.__eq__(o)

    def __hash__(self):
        raise Unsupported('hash of symbolic date')

    def weekday(self):
        return (SInt(z3.simplify(_ymd2ord(_I(self.year), _I(self.month), _I(self.day)))) + 6) % 7

    def toordinal(self):
        return SInt(_ymd2ord(_I(self.year), _I(self.month), _I(self.day)))

    def strftime(self, fmt):
        raise Unsupported('strftime on symbolic date')

    def timetuple(self):
        raise Unsupported('timetuple on symbolic date')

    def __sx_eval__(self, model):
        return 'date(%d,%d,%d)' % (_mi(model, self.year), _mi(model, self.month), _mi(model, self.day))

    def __repr__(self):
        return 'SDate(%r,%r,%r)' % (self.year, self.month, self.day)


class STime(Sym):
    _pytype = _dt.time

    def __init__(self, H=0, M=0, S=0, us=0, tzinfo=None, _checked=False):
        if not _checked:
            H, M, S, us = _valid_time(H, M, S, us)
        self.hour, self.minute, self.second, self.microsecond = H, M, S, us
        self.tzinfo = tzinfo

    def isoformat(self):
        r = _pad(self.hour, 2) + ':' + _pad(self.minute, 2) + ':' + _pad(self.second, 2)
        us = self.microsecond
        if (us != 0) if not isinstance(us, SInt) else E.branch(us.z != 0):
            r = r + '.' + _pad(us, 6)
        m = tz_minutes(self.tzinfo)
        if m is not None:
            r = r + _offset_text(m)
        return r

    __sx_str__ = isoformat

    def _key(self):
        return ((_I(self.hour) * 60 + _I(self.minute)) * 60 + _I(self.second)) * 1000000 + _I(self.microsecond)

    def _cmp(self, o, op, eq=False):
        if isinstance(o, _dt.time):
            o = STime(o.hour, o.minute, o.second, o.microsecond, o.tzinfo, True)
        if not isinstance(o, STime):
            return NotImplemented
        ma, mb = tz_minutes(self.tzinfo), tz_minutes(o.tzinfo)
        if (ma is None) != (mb is None):
            if eq:
                return False
            raise TypeError("can't compare offset-naive and offset-aware times")
        ka, kb = self._key(), o._key()
        if ma is not None:
            ka = ka - _I(ma) * 60000000
            kb = kb - _I(mb) * 60000000
        return SBool(op(ka, kb))

    def __lt__(s, o): return s._cmp(o, lambda a, b: a < b)
    def __le__(s, o): return s._cmp(o, lambda a, b: a <= b)
    def __gt__(s, o): return s._cmp(o, lambda a, b: a > b)
    def __ge__(s, o): return s._cmp(o, lambda a, b: a >= b)

    def __eq__(s, o):
        r = s._cmp(o, lambda a, b: a == b, True)
        return False if r is NotImplemented else r

    def __ne__(s, o):
        r = s.__eq__(o)
        return SBool(z3.Not(r.z)) if isinstance(r, SBool) else not r

    def __sx_eq__(s, o):
        return s.__eq__(o)

    def __hash__(self):
        raise Unsupported('hash of symbolic time')

    def replace(self, **kw):
        a = dict(H=self.hour, M=self.minute, S=self.second, us=self.microsecond, tzinfo=self.tzinfo)
        names = {'hour': 'H', 'minute': 'M', 'second': 'S', 'microsecond': 'us', 'tzinfo': 'tzinfo'}
        for k, v in kw.items():
            a[names[k]] = v
        return STime(**a)

    def strftime(self, fmt):
        raise Unsupported('strftime on symbolic time')

    def __sx_eval__(self, model):
        return 'time(%d,%d,%d,%d)' % tuple(_mi(model, x) for x in
                                           (self.hour, self.minute, self.second, self.microsecond))


class SDateTime(Sym):
    _pytype = _dt.datetime

    def __init__(self, y, m, d, H=0, M=0, S=0, us=0, tzinfo=None, _checked=False):
        if not _checked:
            y, m, d = _valid_date(y, m, d)
            H, M, S, us = _valid_time(H, M, S, us)
            if tzinfo is not None and not isinstance(tzinfo, (_dt.tzinfo, SFixedOffset)):
                raise TypeError('tzinfo argument must be None or of a tzinfo subclass')
        self.year, self.month, self.day = y, m, d
        self.hour, self.minute, self.second, self.microsecond = H, M, S, us
        self.tzinfo = tzinfo

    def date(self):
        return SDate(self.year, self.month, self.day, True)

    def time(self):
        return STime(self.hour, self.minute, self.second, self.microsecond, None, True)

    def timetz(self):
        return STime(self.hour, self.minute, self.second, self.microsecond, self.tzinfo, True)

    def utcoffset_minutes(self):
        return tz_minutes(self.tzinfo)

    def weekday(self):
        return (SInt(z3.simplify(_ymd2ord(_I(self.year), _I(self.month), _I(self.day)))) + 6) % 7

    def isoformat(self, sep='T'):
        r = _pad(self.year, 4) + '-' + _pad(self.month, 2) + '-' + _pad(self.day, 2) + sep + \
            _pad(self.hour, 2) + ':' + _pad(self.minute, 2) + ':' + _pad(self.second, 2)
        us = self.microsecond
        if (us != 0) if not isinstance(us, SInt) else E.branch(us.z != 0):
            r = r + '.' + _pad(us, 6)
        m = tz_minutes(self.tzinfo)
        if m is not None:
            r = r + _offset_text(m)
        return r

    __sx_str__ = isoformat

    def replace(self, **kw):
        a = dict(y=self.year, m=self.month, d=self.day, H=self.hour, M=self.minute, S=self.second,
                 us=self.microsecond, tzinfo=self.tzinfo)
        names = {'year': 'y', 'month': 'm', 'day': 'd', 'hour': 'H', 'minute': 'M', 'second': 'S',
                 'microsecond': 'us', 'tzinfo': 'tzinfo'}
        only_tz = set(kw) <= {'tzinfo'}
        for k, v in kw.items():
            a[names[k]] = v
        return SDateTime(_checked=only_tz, **a)

    def _minute_of_era(self):
        """minutes since 0001-01-01T00:00 of the local fields"""
        return (_ymd2ord(_I(self.year), _I(self.month), _I(self.day)) * 24 + _I(self.hour)) * 60 + _I(self.minute)

    def astimezone(self, tz=None):
        if tz is None:
            raise Unsupported('astimezone() to the system zone')
        m0 = tz_minutes(self.tzinfo)
        if m0 is None:
            # a naive datetime is taken to be in the system zone: stubbed by the fixed offset this machine runs with
            import time as _time
            if _time.daylight:
                raise Unsupported('astimezone() on a naive datetime (system zone with DST)')
            m0 = -_time.timezone // 60
        m1 = tz_minutes(tz)
        # a fixed-offset shift moves the local date by at most one day either way
        tm = z3.simplify(_I(self.hour) * 60 + _I(self.minute) - _I(m0) + _I(m1))
        y, mo, d = _I(self.year), _I(self.month), _I(self.day)
        if E.branch(tm < 0):
            tm = tm + 1440
            if E.branch(tm < 0):
                raise Unsupported('utc offset shift of more than a day')
            if E.branch(d > 1):
                d = d - 1
            elif E.branch(mo > 1):
                mo = mo - 1
                d = _days_in_month(y, mo)
            else:
                if not E.branch(y > 1):
                    raise OverflowError('date value out of range')
                y, mo, d = y - 1, z3.IntVal(12), z3.IntVal(31)
        elif E.branch(tm >= 1440):
            tm = tm - 1440
            if E.branch(tm >= 1440):
                raise Unsupported('utc offset shift of more than a day')
            if E.branch(d < _days_in_month(y, mo)):
                d = d + 1
            elif E.branch(mo < 12):
                mo, d = mo + 1, z3.IntVal(1)
            else:
                if not E.branch(y < 9999):
                    raise OverflowError('date value out of range')
                y, mo, d = y + 1, z3.IntVal(1), z3.IntVal(1)
        S = lambda t: SInt(z3.simplify(t))
        return SDateTime(S(y), S(mo), S(d), S(tm / 60), S(tm % 60), self.second, self.microsecond,
                         tz, _checked=True)

    def _key(self):
        k = ((_I(self.year) * 13 + _I(self.month)) * 32 + _I(self.day)) * 24 + _I(self.hour)
        return ((k * 60 + _I(self.minute)) * 60 + _I(self.second)) * 1000000 + _I(self.microsecond)

    def _cmp(self, o, op, eq=False):
        if isinstance(o, _dt.datetime):
            o = SDateTime(o.year, o.month, o.day, o.hour, o.minute, o.second, o.microsecond, o.tzinfo, True)
        if not isinstance(o, SDateTime):
            if isinstance(o, (_dt.date, SDate)) and not eq:
                raise TypeError("can't compare datetime.datetime to datetime.date")
            return NotImplemented
        ma, mb = tz_minutes(self.tzinfo), tz_minutes(o.tzinfo)
        if (ma is None) != (mb is None):
            if eq:
                return False
            raise TypeError("can't compare offset-naive and offset-aware datetimes")
        a = self
        if ma is not None:
            same = (ma is mb) or (not isinstance(ma, SInt) and not isinstance(mb, SInt) and ma == mb)
            if not same:
                # compare in o's zone: a fixed-offset shift is a bounded day roll-over (no era arithmetic)
                try:
                    a = self.astimezone(o.tzinfo if o.tzinfo is not None else None)
                except OverflowError:
                    # at the edge of the representable range: compare absolute instants instead
                    return SBool(op(self._instant(), o._instant()))
        return SBool(op(a._key(), o._key()))

    def _instant(self):
        m = tz_minutes(self.tzinfo)
        k = (self._minute_of_era() - (_I(m) if m is not None else 0)) * 60 + _I(self.second)
        return k * 1000000 + _I(self.microsecond)

    def __lt__(s, o): return s._cmp(o, lambda a, b: a < b)
    def __le__(s, o): return s._cmp(o, lambda a, b: a <= b)
    def __gt__(s, o): return s._cmp(o, lambda a, b: a > b)
    def __ge__(s, o): return s._cmp(o, lambda a, b: a >= b)

    def __eq__(s, o):
        r = s._cmp(o, lambda a, b: a == b, True)
        return False if r is NotImplemented else r

    def __ne__(s, o):
        r = s.__eq__(o)
        return SBool(z3.Not(r.z)) if isinstance(r, SBool) else not r

    def __sx_eq__(s, o):
        return s.__eq__(o)

    def __hash__(self):
        raise Unsupported('hash of symbolic datetime')

    def strftime(self, fmt):
        raise Unsupported('strftime on symbolic datetime')

    def timetuple(self):
        raise Unsupported('timetuple on symbolic datetime')

    def __sx_eval__(self, model):
        m = tz_minutes(self.tzinfo)
        return 'datetime(%d,%d,%d,%d,%d,%d,%d,tz=%s)' % (tuple(_mi(model, x) for x in (
            self.year, self.month, self.day, self.hour, self.minute, self.second, self.microsecond))
            + (None if m is None else _mi(model, m) if isinstance(m, SInt) else m,))


class STotalSeconds(Sym):
    """timedelta.total_seconds(): exact when microseconds == 0, else within 1 of the whole seconds"""
    _pytype = float

    def __init__(self, whole, us):
        self.whole, self.us = whole, us

    def __sx_int__(self):
        r = z3.Int(E.fresh_name('totsec'))
        E.add(z3.If(_I(self.us) == 0, r == self.whole, z3.And(r >= self.whole - 1, r <= self.whole + 1)))
        return SInt(r)


_US_DAY = 86400 * 1000000


class STimeDelta(Sym):
    _pytype = _dt.timedelta

    def __init__(self, days=0, seconds=0, microseconds=0, milliseconds=0, minutes=0, hours=0, weeks=0,
                 _total=None, _norm=None):
        if _total is None:
            parts = []
            for x, k in ((days, _US_DAY), (seconds, 1000000), (microseconds, 1), (milliseconds, 1000),
                         (minutes, 60000000), (hours, 3600000000), (weeks, 7 * _US_DAY)):
                if isinstance(x, SInt):
                    parts.append(x.z * k)      # integral floats are exact here
                elif isinstance(x, SBool):
                    parts.append(z3.If(x.z, k, 0))
                elif isinstance(x, bool) or isinstance(x, int):
                    parts.append(z3.IntVal(int(x) * k))
                elif isinstance(x, float):
                    if not x.is_integer():
                        raise Unsupported('fractional timedelta argument')
                    parts.append(z3.IntVal(int(x) * k))
                elif hasattr(x, '__sx_td_us__'):
                    parts.append(x.__sx_td_us__(k))
                else:
                    raise TypeError('unsupported type for timedelta component: %s' % type(x).__name__)
            _total = parts[0]
            for p in parts[1:]:
                _total = _total + p
        self.total = z3.simplify(_total)       # total microseconds
        self._norm = _norm
        lim = 999999999
        if not E.branch(z3.And(self.total >= -lim * _US_DAY, self.total < (lim + 1) * _US_DAY)):
            raise OverflowError('days; must have magnitude <= 999999999')

    def _fields(self):
        if self._norm is None:
            if z3.is_int_value(self.total):
                t = self.total.as_long()
                self._norm = (z3.IntVal(t // _US_DAY), z3.IntVal(t % _US_DAY // 1000000), z3.IntVal(t % 1000000))
            else:
                n = E.fresh_name('td')
                d, sc, us = z3.Int(n + '_d'), z3.Int(n + '_s'), z3.Int(n + '_us')
                E.add(self.total == (d * 86400 + sc) * 1000000 + us)
                E.add(z3.And(sc >= 0, sc < 86400, us >= 0, us < 1000000))
                E.declare_range(sc, 0, 86399)
                E.declare_range(us, 0, 999999)
                self._norm = (d, sc, us)
        return self._norm

    @property
    def days(self):
        return SInt(self._fields()[0])

    @property
    def seconds(self):
        return SInt(self._fields()[1])

    @property
    def microseconds(self):
        return SInt(self._fields()[2])

    def total_seconds(self):
        d, sc, us = self._fields()
        return STotalSeconds(d * 86400 + sc + z3.If(z3.And(d < 0, us != 0), 1, 0), us)

    def __neg__(self):
        return STimeDelta(_total=-self.total)

    def __mul__(self, k):
        if isinstance(k, (int, SInt)) and not getattr(k, 'is_float', False) and not isinstance(k, bool):
            return STimeDelta(_total=self.total * _I(k))
        raise Unsupported('timedelta * %r' % (type(k),))
    __rmul__ = __mul__

    def __add__(self, o):
        if isinstance(o, _dt.timedelta):
            o = from_timedelta(o)
        if isinstance(o, STimeDelta):
            return STimeDelta(_total=self.total + o.total)
        return NotImplemented
    __radd__ = __add__

    def _cmp(self, o, op):
        if isinstance(o, _dt.timedelta):
            o = from_timedelta(o)
        if not isinstance(o, STimeDelta):
            return NotImplemented
        return SBool(op(self.total, o.total))

    def __lt__(s, o): return s._cmp(o, lambda a, b: a < b)
    def __le__(s, o): return s._cmp(o, lambda a, b: a <= b)
    def __gt__(s, o): return s._cmp(o, lambda a, b: a > b)
    def __ge__(s, o): return s._cmp(o, lambda a, b: a >= b)

    def __eq__(s, o):
        r = s._cmp(o, lambda a, b: a == b)
        return False if r is NotImplemented else r

    def __ne__(s, o):
        r = s.__eq__(o)
        return SBool(z3.Not(r.z)) if isinstance(r, SBool) else not r

    def __sx_eq__(s, o):
        return s.__eq__(o)

    def __bool__(self):
        return E.branch(self.total != 0)

    def __hash__(self):
        raise Unsupported('hash of symbolic timedelta')

    def __sx_eval__(self, model):
        return 'timedelta(us=%d)' % model_int(model, self.total)


def from_timedelta(td):
    return STimeDelta(_total=z3.IntVal((td.days * 86400 + td.seconds) * 1000000 + td.microseconds))


# ------------------------------------------------------------------ float(text) kernels
_U = 2.0 ** -53


class SFrac(Sym):
    """float(text) for text = digits[.digits]: the correctly rounded double of num / 10**k.
    Integer conversions of expressions over it are decided by separate floating-point lemmas
    (see fp.py); here only the exact rational and the shape of the expression are tracked."""
    _pytype = float

    def __init__(self, num, k, expr=('x',), intdigits=None):
        self.num, self.k, self.expr = num, k, expr      # num: z3 Int >= 0, k: python int
        self.intdigits = intdigits

    def __mul__(self, o):
        if isinstance(o, float) and o == 1e6 and self.expr in (('x',), ('frac',)):
            return SFrac(self.num, self.k, self.expr + ('mul1e6',), self.intdigits)
        raise Unsupported('float arithmetic %r * %r' % (self.expr, o))
    __rmul__ = __mul__

    def __sx_round__(self):
        return SFrac(self.num, self.k, self.expr + ('round',), self.intdigits)

    def __sx_modf__(self):
        if self.expr != ('x',):
            raise Unsupported('modf of float expression')
        from . import fp
        fp.require_modf_exact(self)
        ip = SInt(self.num / (10 ** self.k), True)
        return (SFrac(self.num, self.k, ('frac',), self.intdigits), ip)

    def __sx_int__(self):
        from . import fp
        return fp.int_of(self)

    def __sx_td_us__(self, k):
        raise Unsupported('fractional float passed to timedelta')

    def _cmp0(self, o, op):
        if isinstance(o, decimal.Decimal) and o.is_infinite():
            o = float(o)
        if isinstance(o, float) and o in (float('inf'), float('-inf')):
            pos = o > 0
            return SBool({_LT: pos, _LE: pos, _GT: not pos, _GE: not pos, _EQ: False, _NE: True}[op])
        if isinstance(o, (int, float)) and o == 0 and self.expr in (('x',), ('frac',)):
            n = self.num if self.expr == ('x',) else self.num % (10 ** self.k)
            return SBool(op(n, 0))
        raise Unsupported('float comparison')

    def __gt__(s, o): return s._cmp0(o, _GT)
    def __lt__(s, o): return s._cmp0(o, _LT)
    def __ge__(s, o): return s._cmp0(o, _GE)
    def __le__(s, o): return s._cmp0(o, _LE)
    def __eq__(s, o): return s._cmp0(o, _EQ)
    def __ne__(s, o): return s._cmp0(o, _NE)

    def __hash__(self):
        raise Unsupported('hash of symbolic float')


_FLOAT_MAYBE = set(b'eE+-_ \t\n\r\x0b\x0cinfatyINFATY')


def parse_float(x):
    """float(str) for the shapes digits[.digits] | .digits | digits.  (ASCII digits only)"""
    c = list(x.c)
    if not c:
        raise ValueError('could not convert string to float: ''')
    digs = []
    k = None
    for i, ch in enumerate(c):
        if E.branch(z3.And(_cz(ch) >= 48, _cz(ch) <= 57)):
            digs.append(ch)
            continue
        if k is None and E.branch(_cz(ch) == 46):
            k = len(c) - 1 - i
            continue
        if z3.is_expr(ch):
            if E.branch(z3.Or(_cz(ch) > 127, *[_cz(ch) == v for v in sorted(_FLOAT_MAYBE)])):
                raise Unsupported('float() syntax beyond digits[.digits]')
        elif ch > 127 or ch in _FLOAT_MAYBE:
            raise Unsupported('float() syntax beyond digits[.digits]')
        raise ValueError('could not convert string to float: <symbolic>')
    if not digs:
        raise ValueError('could not convert string to float: <no digits>')
    if len(digs) > 15:
        raise Unsupported('float() of more than 15 significant digits')
    return SFrac(digits_val(digs), k or 0, intdigits=len(digs) - (k or 0))


# ------------------------------------------------------------------ decimal.Decimal
class SDecimal(Sym):
    """finite decimal: sign (python bool or z3 Bool), coefficient digits (CStr without redundant
    leading zeros, or '0'), exponent (python int)"""
    _pytype = decimal.Decimal

    def __init__(self, neg, digits, exp):
        self.neg, self.digits, self._exp = neg, digits, exp

    @property
    def exp(self):
        if isinstance(self._exp, SInt):
            self._exp = concretize(self._exp, -60, 60)
        return self._exp

    def _coef(self):
        return digits_val(self.digits.c)

    def __sx_str__(self):
        neg = self.neg if isinstance(self.neg, bool) else E.branch(self.neg)
        sign = '-' if neg else ''
        _int = self.digits
        n = len(_int.c)
        leftdigits = self.exp + n
        if self.exp <= 0 and leftdigits > -6:
            dotplace = leftdigits
        else:
            dotplace = 1
        if dotplace <= 0:
            intpart = CStr.of('0')
            fracpart = CStr.of('.' + '0' * (-dotplace)) + _int
        elif dotplace >= n:
            intpart = _int + '0' * (dotplace - n)
            fracpart = CStr.of('')
        else:
            intpart = _int[:dotplace]
            fracpart = CStr.of('.') + _int[dotplace:]
        if leftdigits == dotplace:
            exp = ''
        else:
            exp = 'E%+d' % (leftdigits - dotplace)
        return CStr.of(sign) + intpart + fracpart + exp

    def value_scaled(self, e):
        """signed value * 10**(-e) as z3 Int (requires exp >= e)"""
        v = self._coef() * (10 ** (self.exp - e))
        if isinstance(self.neg, bool):
            return -v if self.neg else v
        return z3.If(self.neg, -v, v)

    def _cmp(self, o, op):
        if isinstance(o, SDecimal):
            e = min(self.exp, o.exp)
            return SBool(op(self.value_scaled(e), o.value_scaled(e)))
        if isinstance(o, (int, SInt)) and not isinstance(o, bool):
            e = min(self.exp, 0)
            return SBool(op(self.value_scaled(e), _I(o) * 10 ** (-e)))
        if isinstance(o, decimal.Decimal):
            if o.is_nan():
                return SBool(op is _NE)
            if o.is_infinite():
                pos = o > 0
                return SBool({_LT: pos, _LE: pos, _GT: not pos, _GE: not pos, _EQ: False, _NE: True}[op])
            sg, dg, ex = o.as_tuple()
            return self._cmp(SDecimal(bool(sg), CStr.of(''.join(map(str, dg))), ex), op)
        if isinstance(o, float):
            if o == float('inf') or o == float('-inf'):
                pos = o > 0
                return SBool({_LT: pos, _LE: pos, _GT: not pos, _GE: not pos, _EQ: False, _NE: True}[op])
            return self._cmp(decimal.Decimal(o), op)
        return NotImplemented

    def __lt__(s, o): return s._cmp(o, _LT)
    def __le__(s, o): return s._cmp(o, _LE)
    def __gt__(s, o): return s._cmp(o, _GT)
    def __ge__(s, o): return s._cmp(o, _GE)

    def __eq__(s, o):
        r = s._cmp(o, _EQ)
        return False if r is NotImplemented else r

    def __ne__(s, o):
        r = s._cmp(o, _NE)
        return True if r is NotImplemented else r

    def __sx_eq__(s, o):
        return s.__eq__(o)

    def __hash__(self):
        raise Unsupported('hash of symbolic decimal')

    def as_tuple(self):
        raise Unsupported('Decimal.as_tuple on symbolic decimal')

    def __sx_eval__(self, model):
        neg = self.neg if isinstance(self.neg, bool) else bool(model_int(model, self.neg))
        e = self._exp
        if isinstance(e, SInt):
            e = model_int(model, e.z)
        return 'Decimal(%s%sE%d)' % ('-' if neg else '', self.digits.eval(model), e)


def _LT(a, b): return a < b
def _LE(a, b): return a <= b
def _GT(a, b): return a > b
def _GE(a, b): return a >= b
def _EQ(a, b): return a == b
def _NE(a, b): return a != b


_DEC_RE = re.compile(r"(?P<sign>[-+])?(?:(?P<int>\d*)(?:\.(?P<frac>\d*))?(?:E(?P<exp>[-+]?\d+))?)\Z",
                     re.IGNORECASE)
_DEC_SPECIAL = re.compile(r"[-+]?(?:Inf(?:inity)?|s?NaN\d*)\Z", re.IGNORECASE)


def parse_decimal(x):
    """decimal.Decimal(str) for finite numerals (default context: InvalidOperation is trapped)"""
    s = x.strip().replace('_', '')
    for ch in s.c:
        if z3.is_expr(ch):
            if E.branch(ch > 127):
                raise Unsupported('Decimal() of non-ASCII symbolic char')
        elif ch > 127:
            raise Unsupported('Decimal() of non-ASCII char')
    if re_match(_DEC_SPECIAL, s) is not None:
        raise Unsupported('Decimal() of Inf/NaN')
    m = re_match(_DEC_RE, s)
    ok = m is not None
    if ok:
        ip = m.group('int')
        fp_ = m.group('frac')
        ok = len(ip.c) > 0 or (fp_ is not None and len(fp_.c) > 0)
    if not ok:
        raise decimal.InvalidOperation([decimal.ConversionSyntax])
    fp_ = fp_ if fp_ is not None else CStr.of('')
    ex = m.group('exp')
    e = 0
    if ex is not None:
        e = parse_int(ex)
    sign = m.group('sign')
    neg = False
    if sign is not None and len(sign.c):
        neg = zbool(sign == '-')
    digs = (ip + fp_).c
    # str(int(...)): strip redundant leading zeros
    while len(digs) > 1 and E.branch(_cz(digs[0]) == 48):
        digs = digs[1:]
    return SDecimal(neg, CStr(digs), (e - len(fp_.c)) if fp_.c else e)


# ------------------------------------------------------------------ strptime('%Y-%m-%d')
_STRP_YMD = re.compile(r"(?P<Y>\d\d\d\d)-(?P<m>1[0-2]|0[1-9]|[1-9])-(?P<d>3[01]|[12]\d|0[1-9]|[1-9]| [1-9])")


def strptime_ymd(s):
    for ch in s.c:
        if z3.is_expr(ch):
            if E.branch(ch > 127):
                raise Unsupported('strptime of non-ASCII symbolic char')
    m = re_match(_STRP_YMD, s)
    if m is None:
        raise ValueError("time data <symbolic> does not match format '%Y-%m-%d'")
    if m.end() != len(s.c):
        raise ValueError('unconverted data remains')
    y = parse_int(m.group('Y'))
    mo = parse_int(m.group('m'))
    dtext = m.group('d')
    d = parse_int(dtext)
    # _strptime builds datetime_date(year, month, day) to compute the weekday/julian day
    _check(z3.And(_I(y) >= 1), ValueError('year 0 is out of range'))
    _check(_I(d) <= _days_in_month(_I(y), _I(mo)), ValueError('day is out of range for month'))
    return (y, mo, d, 0, 0, 0, SInt(z3.Int(E.fresh_name('wday'))), SInt(z3.Int(E.fresh_name('yday'))), -1)


# ------------------------------------------------------------------ str.format
_FIELD_RE = re.compile(r'\{(\d*)(?::([^{}]*))?\}')


def str_format(fmt, args, kw):
    raise Unsupported('str.format with proxy')


# ------------------------------------------------------------------ dispatch of constructors / functions
@register
def _ctor_models(f, slf, args, kw):
    if f is _dt.datetime:
        names = ['y', 'm', 'd', 'H', 'M', 'S', 'us', 'tzinfo']
        kmap = {'year': 'y', 'month': 'm', 'day': 'd', 'hour': 'H', 'minute': 'M', 'second': 'S',
                'microsecond': 'us', 'tzinfo': 'tzinfo'}
        a = dict(zip(names, args))
        for k, v in kw.items():
            a[kmap[k]] = v
        return SDateTime(**a)
    if f is _dt.date:
        return SDate(*args, **kw)
    if f is _dt.time:
        names = ['H', 'M', 'S', 'us', 'tzinfo']
        kmap = {'hour': 'H', 'minute': 'M', 'second': 'S', 'microsecond': 'us', 'tzinfo': 'tzinfo'}
        a = dict(zip(names, args))
        for k, v in kw.items():
            a[kmap[k]] = v
        return STime(**a)
    if f is _dt.timedelta:
        names = ['days', 'seconds', 'microseconds', 'milliseconds', 'minutes', 'hours', 'weeks']
        a = dict(zip(names, args))
        a.update(kw)
        return STimeDelta(**a)
    if f is decimal.Decimal:
        x = args[0]
        if isinstance(x, SDecimal):
            return x
        if isinstance(x, CStr):
            if x.is_bytes:
                raise TypeError('conversion from bytes to Decimal is not supported')
            return parse_decimal(x)
        if isinstance(x, SInt) and not x.is_float:
            r = render_int(x)
            neg = bool(r.c and r.c[0] == 45)
            return SDecimal(neg, CStr(r.c[1:] if neg else r.c), 0)
        if isinstance(x, SBool):
            return SDecimal(False, CStr([z3.If(x.z, 49, 48)]), 0)
        if isinstance(x, (list, tuple)):
            if len(x) != 3:
                raise ValueError('argument must be a sequence of length 3')
            raise Unsupported('Decimal(tuple)')
        if isinstance(x, dict):
            raise TypeError('conversion from dict to Decimal is not supported')
        raise Unsupported('Decimal(%r)' % (type(x),))
    if f is _time.strptime:
        if isinstance(args[0], CStr) and len(args) == 2 and args[1] == '%Y-%m-%d':
            return strptime_ymd(args[0])
        raise Unsupported('strptime with format %r' % (args[1:],))
    try:
        import pytz
        if f is pytz.FixedOffset:
            m = args[0]
            if isinstance(m, SInt):
                if not E.branch(z3.And(m.z > -1440, m.z < 1440)):
                    raise ValueError('absolute offset is too large')
                return SFixedOffset(m)
    except ImportError:
        pass
    return NO_MODEL


# ------------------------------------------------------------------ base64 / hex (binascii) models
import base64 as _b64
import binascii as _binascii


def _enc6(v, urlsafe):
    c62, c63 = (45, 95) if urlsafe else (43, 47)
    return z3.If(v < 26, v + 65, z3.If(v < 52, v + 71, z3.If(v < 62, v - 4, z3.If(v == 62, c62, c63))))


def _dec6(c, urlsafe):
    c62, c63 = (45, 95) if urlsafe else (43, 47)
    return z3.If(z3.And(c >= 65, c <= 90), c - 65, z3.If(z3.And(c >= 97, c <= 122), c - 71,
           z3.If(z3.And(c >= 48, c <= 57), c + 4, z3.If(c == c62, 62, z3.If(c == c63, 63, -1)))))


def _bytes_of(x):
    if isinstance(x, CStr):
        return x
    if isinstance(x, (bytes, bytearray)):
        return CStr(list(x), is_bytes=True)
    if isinstance(x, str):
        return CStr([ord(ch) for ch in x])
    raise TypeError("a bytes-like object is required, not '%s'" % type(x).__name__)


def b64encode_model(data, urlsafe=False):
    data = _bytes_of(data)
    if not data.is_bytes:
        raise TypeError("a bytes-like object is required, not 'str'")
    out = []
    bs = [SInt(_cz(b)) for b in data.c]
    for i in range(0, len(bs), 3):
        g = bs[i:i + 3]
        b0 = g[0]
        s0 = b0 // 4
        if len(g) == 1:
            out += [_enc6(s0.z, urlsafe), _enc6(((b0 % 4) * 16).z, urlsafe), 61, 61]
            continue
        b1 = g[1]
        s1 = (b0 % 4) * 16 + b1 // 16
        if len(g) == 2:
            out += [_enc6(s0.z, urlsafe), _enc6(s1.z, urlsafe), _enc6(((b1 % 16) * 4).z, urlsafe), 61]
            continue
        b2 = g[2]
        s2 = (b1 % 16) * 4 + b2 // 64
        out += [_enc6(s0.z, urlsafe), _enc6(s1.z, urlsafe), _enc6(s2.z, urlsafe), _enc6((b2 % 64).z, urlsafe)]
    return CStr([z3.simplify(c) if z3.is_expr(c) else c for c in out], is_bytes=True)


def b64decode_model(data, urlsafe=False, strict=False):
    """binascii.a2b_base64 in its default, non-strict mode: characters outside the alphabet are discarded,
    decoding stops at the padding; incomplete trailing groups raise binascii.Error.  strict (validate=True): a character
    outside the alphabet is an error"""
    data = _bytes_of(data)
    sext = []
    npad = 0
    for ch in data.c:
        c = _cz(ch)
        if E.branch(c == 61):
            npad += 1
            if len(sext) % 4 >= 2 and (len(sext) % 4 == 3 or npad >= 2):
                break
            continue
        v = _dec6(c, urlsafe)
        if E.branch(v >= 0):
            if npad and len(sext) % 4 != 0:
                npad = 0            # (CPython resets the pad count only at a character of the alphabet)
            sext.append(SInt(z3.simplify(v)))
        elif strict:
            raise _binascii.Error('Only base64 data is allowed')
        # else: discarded (non-alphabet character)
    rem = len(sext) % 4
    if rem == 1:
        raise _binascii.Error('Invalid base64-encoded string: number of data characters cannot be 1 more '
                              'than a multiple of 4')
    if rem and npad < (4 - rem):
        raise _binascii.Error('Incorrect padding')
    out = []
    for i in range(0, len(sext) - rem, 4):
        s0, s1, s2, s3 = sext[i:i + 4]
        out += [(s0 * 4 + s1 // 16).z, ((s1 % 16) * 16 + s2 // 4).z, ((s2 % 4) * 64 + s3).z]
    if rem >= 2:
        s = sext[len(sext) - rem:]
        out.append((s[0] * 4 + s[1] // 16).z)
        if rem == 3:
            out.append(((s[1] % 16) * 16 + s[2] // 4).z)
    return CStr([z3.simplify(c) for c in out], is_bytes=True)


def hexlify_model(data):
    data = _bytes_of(data)
    out = []
    for b in data.c:
        sb = SInt(_cz(b))
        for v in (sb // 16, sb % 16):
            out.append(z3.simplify(z3.If(v.z < 10, v.z + 48, v.z + 87)))
    return CStr(out, is_bytes=True)


def unhexlify_model(data):
    data = _bytes_of(data)
    if len(data.c) % 2:
        raise _binascii.Error('Odd-length string')
    vals = []
    for ch in data.c:
        c = _cz(ch)
        v = z3.If(z3.And(c >= 48, c <= 57), c - 48, z3.If(z3.And(c >= 97, c <= 102), c - 87,
                  z3.If(z3.And(c >= 65, c <= 70), c - 55, -1)))
        if not E.branch(v >= 0):
            raise _binascii.Error('Non-hexadecimal digit found')
        vals.append(z3.simplify(v))
    return CStr([z3.simplify(vals[i] * 16 + vals[i + 1]) for i in range(0, len(vals), 2)], is_bytes=True)


@register
def _binary_models(f, slf, args, kw):
    if f is _b64.b64encode:
        return b64encode_model(args[0])
    if f is _b64.urlsafe_b64encode:
        return b64encode_model(args[0], urlsafe=True)
    if f is _b64.b64decode:
        if len(args) > 1 and args[1] is not None:
            raise Unsupported('b64decode with altchars')
        return b64decode_model(args[0], strict=bool(kw.get('validate', False)))
    if f is _b64.urlsafe_b64decode:
        return b64decode_model(args[0], urlsafe=True)
    if f is _binascii.hexlify:
        return hexlify_model(args[0])
    if f is _binascii.unhexlify:
        return unhexlify_model(args[0])
    return NO_MODEL


# ------------------------------------------------------------------ urllib.parse.unquote
import urllib.parse as _urlparse


def _hexval(c):
    return z3.If(z3.And(c >= 48, c <= 57), c - 48, z3.If(z3.And(c >= 97, c <= 102), c - 87,
                 z3.If(z3.And(c >= 65, c <= 70), c - 55, -1)))


def unquote_model(x):
    """percent-decoding of a str; decoded bytes >= 0x80 (multi-byte UTF-8) are outside the model"""
    x = x if isinstance(x, CStr) else CStr.of(x)
    out = []
    i = 0
    c = x.c
    while i < len(c):
        if i + 2 < len(c) + 0 and i + 2 <= len(c) - 1 and E.branch(_cz(c[i]) == 37):
            h, l = _hexval(_cz(c[i + 1])), _hexval(_cz(c[i + 2]))
            if E.branch(z3.And(h >= 0, l >= 0)):
                v = z3.simplify(h * 16 + l)
                if not E.branch(v < 128):
                    raise Unsupported('percent-decoding of non-ASCII bytes')
                out.append(v if not z3.is_int_value(v) else v.as_long())
                i += 3
                continue
        out.append(c[i])
        i += 1
    r = CStr(out)
    return r.concrete_value() if r.is_concrete() else r


@register
def _decimal_context_models(f, slf, args, kw):
    if isinstance(slf, decimal.Context) and getattr(f, '__name__', '') == 'create_decimal' and args:
        x = args[0]
        d = _ctor_models(decimal.Decimal, None, (x,), {})
        if isinstance(d, SDecimal) and len(d.digits.c) > slf.prec:
            raise Unsupported('Context.create_decimal rounds a coefficient longer than the context precision')
        return d
    return NO_MODEL


@register
def _url_models(f, slf, args, kw):
    if f is _urlparse.unquote and len(args) == 1 and not kw:
        return unquote_model(args[0])
    return NO_MODEL

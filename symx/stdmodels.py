"""Executable models of stdlib C types / functions that may receive a proxy.
(filled in incrementally; anything not modelled here makes a path inconclusive)"""
from .core import Unsupported

NO_MODEL = object()
_DISPATCH = []      # list of callables (f, slf, args, kw) -> value | NO_MODEL


def register(fn):
    _DISPATCH.append(fn)
    return fn


def dispatch(f, slf, args, kw):
    for d in _DISPATCH:
        r = d(f, slf, args, kw)
        if r is not NO_MODEL:
            return r
    return NO_MODEL


def parse_float(x):
    raise Unsupported('float() of symbolic string')


def str_format(fmt, args, kw):
    raise Unsupported('str.format with proxy')

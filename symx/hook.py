"""Import hook: every `spyne.*` module is compiled from its current source in /repo with a
purely mechanical AST rewrite that routes calls, `%`, `in` and subscripts through the
call shim.  Nothing else changes; file names and line numbers stay those of /repo."""
import ast
import sys
import builtins
import importlib.abc
import importlib.machinery

SKIP_CALLS = {'super', 'locals', 'globals', 'vars', 'eval', 'exec', 'dir', '__import__'}

# modules whose dict displays / dict() constructions become SDicts
SDICT_MODULES = {'spyne.protocol.dictdoc.simple'}

EXCLUDE = ('spyne.util.six', 'spyne.test', 'spyne.util.odict', 'spyne.util.oset')


def _name(id_):
    return ast.Name(id=id_, ctx=ast.Load())


class Rewriter(ast.NodeTransformer):
    def __init__(self, sdict=False):
        self.sdict = sdict

    def visit_Call(self, node):
        self.generic_visit(node)
        if isinstance(node.func, ast.Name) and node.func.id in SKIP_CALLS:
            return node
        if self.sdict and isinstance(node.func, ast.Name) and node.func.id == 'defaultdict':
            return ast.copy_location(
                ast.Call(func=_name('__sx_defaultdict__'), args=node.args, keywords=node.keywords), node)
        return ast.copy_location(
            ast.Call(func=_name('__sx_call__'), args=[node.func] + node.args,
                     keywords=node.keywords), node)

    def visit_BinOp(self, node):
        self.generic_visit(node)
        if isinstance(node.op, ast.Mod):
            return ast.copy_location(
                ast.Call(func=_name('__sx_mod__'), args=[node.left, node.right], keywords=[]), node)
        return node

    def visit_Compare(self, node):
        self.generic_visit(node)
        if len(node.ops) == 1 and isinstance(node.ops[0], (ast.In, ast.NotIn)):
            call = ast.Call(func=_name('__sx_in__'), args=[node.left, node.comparators[0]],
                            keywords=[])
            if isinstance(node.ops[0], ast.NotIn):
                call = ast.Call(func=_name('__sx_not__'), args=[call], keywords=[])
            return ast.copy_location(call, node)
        return node

    def visit_Subscript(self, node):
        self.generic_visit(node)
        if isinstance(node.ctx, ast.Load) and not isinstance(node.slice, ast.Slice):
            return ast.copy_location(
                ast.Call(func=_name('__sx_getitem__'), args=[node.value, node.slice], keywords=[]),
                node)
        return node

    def visit_Dict(self, node):
        self.generic_visit(node)
        if self.sdict and not node.keys:
            return ast.copy_location(
                ast.Call(func=_name('__sx_dict__'), args=[], keywords=[]), node)
        return node


class Loader(importlib.machinery.SourceFileLoader):
    def source_to_code(self, data, path, *, _optimize=-1):
        tree = ast.parse(data, filename=path)
        tree = Rewriter(sdict=self.name in SDICT_MODULES).visit(tree)
        ast.fix_missing_locations(tree)
        return compile(tree, path, 'exec', dont_inherit=True, optimize=_optimize)

    def get_code(self, fullname):
        path = self.get_filename(fullname)
        INSTRUMENTED[fullname] = path
        return self.source_to_code(self.get_data(path), path)


INSTRUMENTED = {}


class Finder(importlib.abc.MetaPathFinder):
    def __init__(self, prefixes):
        self.prefixes = prefixes

    def find_spec(self, name, path, target=None):
        if not any(name == p or name.startswith(p + '.') for p in self.prefixes):
            return None
        if any(name == x or name.startswith(x + '.') for x in EXCLUDE):
            return None
        spec = importlib.machinery.PathFinder.find_spec(name, path)
        if spec is None or not isinstance(spec.loader, importlib.machinery.SourceFileLoader):
            return spec
        spec.loader = Loader(spec.loader.name, spec.loader.path)
        return spec


_installed = False


def install(prefixes=('spyne',)):
    global _installed
    if _installed:
        return
    from . import shim
    builtins.__sx_call__ = shim.sx_call
    builtins.__sx_mod__ = shim.sx_mod
    builtins.__sx_in__ = shim.sx_in
    builtins.__sx_not__ = shim.sx_not
    builtins.__sx_getitem__ = shim.sx_getitem
    builtins.__sx_dict__ = shim.sx_dict
    builtins.__sx_defaultdict__ = shim.sx_defaultdict
    sys.meta_path.insert(0, Finder(prefixes))
    sys.dont_write_bytecode = True
    for m in list(sys.modules):
        if m == 'spyne' or m.startswith('spyne.'):
            raise RuntimeError('spyne imported before the symx hook was installed: %s' % m)
    _installed = True

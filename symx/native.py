"""Native worker: runs harnesses in concrete mode against plain, un-instrumented /repo code.
Protocol: one JSON request per line on stdin, one JSON response per line on stdout."""
import sys
import os
import json
import traceback
import importlib
import logging
import warnings

REPO = os.environ.get('SYMX_REPO', '/repo')


def exc_site(tb):
    """innermost frame inside /repo/spyne: 'path.py:function'"""
    site = None
    for fs in traceback.extract_tb(tb):
        fn = fs.filename
        if '/spyne/' in fn and '/harness/' not in fn:
            site = '%s:%s' % (fn.split('/spyne/', 1)[1], fs.name)
    return site


def run_concrete(h, pidx, inputs, tier):
    from symx.api import ConcCtx, OutsideClaim, ConcAbort
    sx = ConcCtx(inputs, tier)
    out = {'prop': None, 'exc': None, 'site': None, 'msg': None, 'obs': None, 'kind': 'ret'}
    try:
        p = h.fn(sx, h.params[pidx])
        out['prop'] = bool(p)
    except OutsideClaim as e:
        out['kind'] = 'outside'; out['msg'] = str(e)
    except ConcAbort as e:
        out['kind'] = 'abort'; out['msg'] = str(e)
    except Exception as e:
        out['kind'] = 'exc'
        out['exc'] = type(e).__name__
        out['site'] = exc_site(e.__traceback__)
        out['msg'] = ('%s' % (e,))[:300]
    out['obs'] = sx.observed
    return out


def load(module):
    return importlib.import_module(module)


def main():
    warnings.simplefilter('ignore')
    logging.disable(logging.CRITICAL)
    sys.setrecursionlimit(10000)
    from symx.api import REGISTRY
    real_out = os.fdopen(os.dup(1), 'w')
    os.dup2(2, 1)       # anything the code under test prints goes to stderr
    for line in sys.stdin:
        line = line.strip()
        if not line:
            continue
        req = json.loads(line)
        try:
            load(req['module'])
            h = REGISTRY[(req['prop'], req['name'])]
            if h.tier_params:
                h.params = h.tier_params[req.get('tier', 'quick')]
            out = run_concrete(h, req['pidx'], req['inputs'], req.get('tier', 'quick'))
        except BaseException as e:
            out = {'kind': 'worker-error', 'msg': traceback.format_exc()[-2000:]}
        real_out.write(json.dumps(out) + '\n')
        real_out.flush()


if __name__ == '__main__':
    main()

"""symx core: path-search engine (DFS by re-execution), z3 glue, scalar proxies.

Everything that is symbolic is a z3 term over mathematical integers / booleans.
Forking happens in exactly two places: Engine.branch (a solver-checked condition)
and Engine.choose (structural non-determinism requested by a harness).
"""
import time
import decimal
import z3


class SymxControl(BaseException):
    """Base of the engine's control-flow exceptions.  They derive from
    BaseException so that `except Exception` clauses in the code under test
    (and in harnesses) can never swallow them."""


class Unsupported(SymxControl):
    """The path reached something the engine cannot represent: inconclusive."""


class PathAbort(SymxControl):
    """Infeasible path / failed assumption."""


class BoundExceeded(SymxControl):
    """A stated bound (decisions per path, digits, unwinding) was reached."""


class Sym(object):
    """Marker base class of all symbolic proxies."""
    __slots__ = ()


_REL = {z3.Z3_OP_EQ: 'eq', z3.Z3_OP_DISTINCT: 'ne', z3.Z3_OP_LE: 'le', z3.Z3_OP_LT: 'lt',
        z3.Z3_OP_GE: 'ge', z3.Z3_OP_GT: 'gt'}
_FLIP = {'eq': 'eq', 'ne': 'ne', 'le': 'ge', 'lt': 'gt', 'ge': 'le', 'gt': 'lt'}
_OPS = {'eq': lambda a, b: a == b, 'ne': lambda a, b: a != b, 'le': lambda a, b: a <= b,
        'lt': lambda a, b: a < b, 'ge': lambda a, b: a >= b, 'gt': lambda a, b: a > b}


def _interval(op, lo, hi, v):
    """var in [lo, hi] (None = unbounded) OP v"""
    if op == 'eq':
        if (lo is not None and v < lo) or (hi is not None and v > hi):
            return False
        if lo == hi == v:
            return True
        return None
    if op == 'ne':
        r = _interval('eq', lo, hi, v)
        return None if r is None else (not r)
    if op == 'le':
        if hi is not None and hi <= v:
            return True
        if lo is not None and lo > v:
            return False
        return None
    if op == 'lt':
        if hi is not None and hi < v:
            return True
        if lo is not None and lo >= v:
            return False
        return None
    if op == 'ge':
        if lo is not None and lo >= v:
            return True
        if hi is not None and hi < v:
            return False
        return None
    if op == 'gt':
        if lo is not None and lo > v:
            return True
        if hi is not None and hi <= v:
            return False
        return None
    return None


class Engine(object):
    def __init__(self, timeout_ms=20000, max_decisions=2000):
        self.timeout_ms = timeout_ms
        self.max_decisions = max_decisions
        self.solver = z3.Solver()
        self.solver.set('timeout', timeout_ms)
        self.decisions = []
        self.arity = []
        self.nforks = 0
        self.pos = 0
        self.trail = []
        self.pc = []
        self.nq = 0
        self.nq_sat = 0
        self.nq_unsat = 0
        self.nq_unknown = 0
        self.tq = 0.0
        self.fresh = 0
        self.choices = []          # values returned by choose() on this path
        self.inputs = {}           # name -> z3 term | list of char terms | ('choice', v)
        self.observed = []         # (key, value)
        self.hints = []            # optional constraints that steer counterexample search
        self.ranges = {}
        self.domains = {}
        self.divcache = {}
        self.nquick = 0
        self.active = False        # True while a symbolic path is being run
        self.touched = set()       # qualified names of functions run with a proxy in scope

    # -- per path
    def reset_run(self):
        self.nforks = 0
        self.pos = 0
        self.trail = []
        self.pc = []
        self.fresh = 0
        self.choices = []
        self.inputs = {}
        self.observed = []
        self.hints = []
        self.ranges = {}
        self.domains = {}
        self.divcache = {}
        self.solver.reset()
        self.solver.set('timeout', self.timeout_ms)

    def fresh_name(self, prefix):
        self.fresh += 1
        return '%s!%d' % (prefix, self.fresh)

    def _retry_unknown(self):
        """z3's timeout is wall-clock time: on a loaded machine a query that needs a few CPU seconds can run into it.  One
        retry with six times the budget before the path is given up as inconclusive (never as a verdict)."""
        if 'timeout' not in (self.solver.reason_unknown() or '') and 'canceled' not in (self.solver.reason_unknown() or ''):
            return z3.unknown
        self.solver.set('timeout', self.timeout_ms * 6)
        try:
            return self.solver.check()
        finally:
            self.solver.set('timeout', self.timeout_ms)

    def check(self, *extra):
        t = time.time()
        if extra:
            self.solver.push()
            for e in extra:
                self.solver.add(e)
            r = self.solver.check()
            if r == z3.unknown:
                r = self._retry_unknown()
            self.solver.pop()
        else:
            r = self.solver.check()
            if r == z3.unknown:
                r = self._retry_unknown()
        self.nq += 1
        self.tq += time.time() - t
        if r == z3.unknown:
            self.nq_unknown += 1
            raise Unsupported('solver unknown: %s' % self.solver.reason_unknown())
        if r == z3.sat:
            self.nq_sat += 1
            return True
        self.nq_unsat += 1
        return False

    def add(self, c):
        self.pc.append(c)
        self.solver.add(c)

    def declare_range(self, var, lo, hi):
        """record the declared domain of an input/fresh variable (already part of PC)"""
        self.ranges[var.get_id()] = (lo, hi)

    def declare_domain(self, var, codes):
        self.ranges[var.get_id()] = (codes[0], codes[-1])
        if len(codes) <= 64:
            self.domains[var.get_id()] = codes

    def quick(self, c):
        """decide a condition from declared variable domains alone: True / False / None"""
        k = c.decl().kind()
        if k == z3.Z3_OP_TRUE:
            return True
        if k == z3.Z3_OP_FALSE:
            return False
        if k == z3.Z3_OP_NOT:
            r = self.quick(c.arg(0))
            return None if r is None else (not r)
        if k == z3.Z3_OP_AND:
            allt = True
            for i in range(c.num_args()):
                r = self.quick(c.arg(i))
                if r is False:
                    return False
                if r is None:
                    allt = False
            return True if allt else None
        if k == z3.Z3_OP_OR:
            allf = True
            for i in range(c.num_args()):
                r = self.quick(c.arg(i))
                if r is True:
                    return True
                if r is None:
                    allf = False
            return False if allf else None
        if k in _REL and c.num_args() == 2:
            a, b = c.arg(0), c.arg(1)
            op = _REL[k]
            if z3.is_int_value(b) and a.get_id() in self.ranges:
                pass
            elif z3.is_int_value(a) and b.get_id() in self.ranges:
                a, b = b, a
                op = _FLIP[op]
            else:
                return None
            v = b.as_long()
            dom = self.domains.get(a.get_id())
            if dom is not None:
                rs = [_OPS[op](x, v) for x in dom]
                if all(rs):
                    return True
                if not any(rs):
                    return False
                return None
            lo, hi = self.ranges[a.get_id()]
            return _interval(op, lo, hi, v)
        return None

    def branch(self, cond):
        """cond: z3 Bool.  Returns a python bool, forking if both sides are feasible."""
        if cond is True or cond is False:
            return cond
        cond = z3.simplify(cond)
        if z3.is_true(cond):
            return True
        if z3.is_false(cond):
            return False
        q = self.quick(cond)
        if q is not None:
            self.nquick += 1
            return q
        if self.pos < len(self.decisions):
            choice, n = self.decisions[self.pos], self.arity[self.pos]
            self.pos += 1
            self.trail.append((choice, n))
            self.add(cond if choice == 0 else z3.Not(cond))
            return choice == 0
        can_t = self.check(cond)
        if not can_t:
            # PC is satisfiable by construction, so the negation is
            self._record(1, 1)
            self.add(z3.Not(cond))
            return False
        can_f = self.check(z3.Not(cond))
        if not can_f:
            self._record(0, 1)
            self.add(cond)
            return True
        self.nforks += 1
        if self.nforks > self.max_decisions:
            raise BoundExceeded('decisions per path > %d' % self.max_decisions)
        self._record(0, 2)
        self.add(cond)
        return True

    def _record(self, choice, n):
        self.trail.append((choice, n))
        self.decisions.append(choice)
        self.arity.append(n)
        self.pos += 1

    def choose(self, n):
        """Structural non-determinism: returns 0..n-1, every value explored."""
        if n <= 0:
            raise PathAbort()
        if n == 1:
            c = 0
        elif self.pos < len(self.decisions):
            c = self.decisions[self.pos]
            self.pos += 1
            self.trail.append((c, n))
        else:
            self.nforks += 1
            if self.nforks > self.max_decisions:
                raise BoundExceeded('decisions per path > %d' % self.max_decisions)
            self._record(0, n)
            c = 0
        self.choices.append(c)
        return c

    def next_path(self, floor=0):
        """Backtrack; `floor` = number of leading decisions that are fixed (job prefix)."""
        tr = self.trail
        while len(tr) > floor:
            c, n = tr[-1]
            if c + 1 < n:
                self.decisions = [x for x, _ in tr[:-1]] + [c + 1]
                self.arity = [a for _, a in tr[:-1]] + [n]
                return True
            tr.pop()
        return False

    def assume(self, c):
        c = zbool(c)
        if c is True:
            return
        if c is False:
            raise PathAbort()
        self.add(c)
        if not self.check():
            raise PathAbort()


E = Engine()


# ------------------------------------------------------------------ lifting
def zbool(x):
    """python bool / SBool / z3 Bool -> python bool or z3 Bool"""
    if isinstance(x, SBool):
        return x.z
    if x is True or x is False:
        return x
    if z3.is_expr(x):
        return x
    if isinstance(x, Sym):
        return bool(x)
    return bool(x)


def zb(x):
    """like zbool but always a z3 term"""
    x = zbool(x)
    if x is True:
        return z3.BoolVal(True)
    if x is False:
        return z3.BoolVal(False)
    return x


def zint(x):
    if isinstance(x, SInt):
        return x.z
    if isinstance(x, SBool):
        return z3.If(x.z, 1, 0)
    if isinstance(x, bool):
        return z3.IntVal(int(x))
    if isinstance(x, int):
        return z3.IntVal(x)
    if z3.is_expr(x):
        return x
    raise Unsupported('cannot lift %r to Int' % (x,))


def _num_other(o):
    """lift the right-hand side of an SInt operation.  Returns a z3 term,
    ('inf', sign) or None (not a number)."""
    if isinstance(o, SInt):
        return o.z
    if isinstance(o, SBool):
        return z3.If(o.z, 1, 0)
    if isinstance(o, bool):
        return z3.IntVal(int(o))
    if isinstance(o, int):
        return z3.IntVal(o)
    if isinstance(o, decimal.Decimal):
        if o.is_nan():
            return None
        if o.is_infinite():
            return ('inf', 1 if o > 0 else -1)
        if o == o.to_integral_value():
            return z3.IntVal(int(o))
        n, d = o.as_integer_ratio()
        return z3.RealVal(n) / z3.RealVal(d)
    if isinstance(o, float):
        if o != o:
            return None
        if o == float('inf'):
            return ('inf', 1)
        if o == float('-inf'):
            return ('inf', -1)
        if o.is_integer():
            return z3.IntVal(int(o))
        n, d = o.as_integer_ratio()
        return z3.RealVal(n) / z3.RealVal(d)
    return None


class SBool(Sym):
    __slots__ = ('z',)

    def __init__(self, z):
        if z is True or z is False:
            z = z3.BoolVal(z)
        self.z = z

    def __bool__(self):
        return E.branch(self.z)

    def __eq__(self, o):
        if isinstance(o, (bool, SBool)):
            return SBool(self.z == zb(o))
        if isinstance(o, (int, SInt)):
            return SBool(z3.If(self.z, 1, 0) == zint(o))
        return False

    def __ne__(self, o):
        r = self.__eq__(o)
        if isinstance(r, SBool):
            return SBool(z3.Not(r.z))
        return not r

    def __hash__(self):
        raise Unsupported('hash of symbolic bool')

    def __and__(self, o):
        return SBool(z3.And(self.z, zb(o)))
    __rand__ = __and__

    def __or__(self, o):
        return SBool(z3.Or(self.z, zb(o)))
    __ror__ = __or__

    def __invert__(self):
        raise Unsupported('~ on symbolic bool')

    def __index__(self):
        raise Unsupported('__index__ on symbolic bool')

    def __int__(self):
        raise Unsupported('__int__ on symbolic bool')

    def __str__(self):
        raise Unsupported('__str__ on symbolic bool')

    def __repr__(self):
        return 'SBool(%s)' % (self.z,)

    # arithmetic on bools behaves like ints
    def _i(self):
        return SInt(z3.If(self.z, 1, 0))

    def __add__(self, o): return self._i() + o
    def __radd__(self, o): return o + self._i()
    def __lt__(self, o): return self._i() < o
    def __le__(self, o): return self._i() <= o
    def __gt__(self, o): return self._i() > o
    def __ge__(self, o): return self._i() >= o


_CMP = {
    'lt': lambda a, b: a < b, 'le': lambda a, b: a <= b,
    'gt': lambda a, b: a > b, 'ge': lambda a, b: a >= b,
    'eq': lambda a, b: a == b, 'ne': lambda a, b: a != b,
}
_CMP_INF = {  # self OP +inf ; for -inf the result is negated for the order relations
    'lt': True, 'le': True, 'gt': False, 'ge': False, 'eq': False, 'ne': True,
}


class SInt(Sym):
    """python int.  `is_float` marks an integral C double (float(int))."""
    __slots__ = ('z', 'is_float')

    def __init__(self, z, is_float=False):
        if isinstance(z, int):
            z = z3.IntVal(z)
        self.z = z
        self.is_float = is_float

    def _cmp(self, o, op):
        r = _num_other(o)
        if r is None:
            return NotImplemented
        if isinstance(r, tuple):
            v = _CMP_INF[op]
            if r[1] < 0 and op in ('lt', 'le', 'gt', 'ge'):
                v = not v
            return SBool(z3.BoolVal(v))
        a = self.z
        if r.sort() == z3.RealSort():
            a = z3.ToReal(a)
        return SBool(_CMP[op](a, r))

    def __lt__(s, o): return s._cmp(o, 'lt')
    def __le__(s, o): return s._cmp(o, 'le')
    def __gt__(s, o): return s._cmp(o, 'gt')
    def __ge__(s, o): return s._cmp(o, 'ge')

    def __eq__(s, o):
        r = s._cmp(o, 'eq')
        return SBool(z3.BoolVal(False)) if r is NotImplemented else r

    def __ne__(s, o):
        r = s._cmp(o, 'ne')
        return SBool(z3.BoolVal(True)) if r is NotImplemented else r

    def __hash__(self):
        raise Unsupported('hash of symbolic int')

    def _bin(self, o, f, keep_float=True):
        r = _num_other(o)
        if r is None or isinstance(r, tuple):
            return NotImplemented
        if r.sort() == z3.RealSort():
            raise Unsupported('SInt op non-integral constant')
        fl = self.is_float or (isinstance(o, SInt) and o.is_float) or isinstance(o, float)
        return SInt(f(self.z, r), fl)

    def __add__(s, o): return s._bin(o, lambda a, b: a + b)
    def __radd__(s, o): return s._bin(o, lambda a, b: b + a)
    def __sub__(s, o): return s._bin(o, lambda a, b: a - b)
    def __rsub__(s, o): return s._bin(o, lambda a, b: b - a)
    def __mul__(s, o): return s._bin(o, lambda a, b: a * b)
    def __rmul__(s, o): return s._bin(o, lambda a, b: b * a)
    def __neg__(s): return SInt(-s.z, s.is_float)
    def __pos__(s): return s
    def __abs__(s): return SInt(z3.If(s.z < 0, -s.z, s.z), s.is_float)

    def _posdiv(self, o):
        if not isinstance(o, (int, float, Sym)):
            raise TypeError("unsupported operand type(s) for %% or //: 'int' and '%s'" % type(o).__name__)
        if isinstance(o, bool) or not isinstance(o, int) or o <= 0:
            if isinstance(o, float) and o > 0 and o.is_integer():
                return int(o)
            raise Unsupported('division of symbolic int by %r' % (o,))
        return o

    def _qr(self, d):
        """floor division by a positive constant with explicit quotient/remainder variables
        (a == q*d + r, 0 <= r < d): linear constraints instead of div/mod terms"""
        key = (self.z.get_id(), d)
        qr = E.divcache.get(key)
        if qr is None:
            if z3.is_int_value(self.z):
                v = self.z.as_long()
                qr = (z3.IntVal(v // d), z3.IntVal(v % d))
            else:
                n = E.fresh_name('qr')
                q, r = z3.Int(n + '_q'), z3.Int(n + '_r')
                E.add(self.z == q * d + r)
                E.add(r >= 0)
                E.add(r < d)
                E.declare_range(r, 0, d - 1)
                qr = (q, r)
            E.divcache[key] = qr + (self.z,)     # keep the term alive so its id is not reused
        return qr[0], qr[1]

    def __floordiv__(s, o):
        d = s._posdiv(o)
        return SInt(s._qr(d)[0], s.is_float or isinstance(o, float))

    def __mod__(s, o):
        d = s._posdiv(o)
        return SInt(s._qr(d)[1], s.is_float or isinstance(o, float))

    def __divmod__(s, o):
        return (s // o, s % o)

    def __truediv__(s, o):
        raise Unsupported('true division of symbolic int')

    def __rtruediv__(s, o):
        raise Unsupported('true division by symbolic int')

    def __rfloordiv__(s, o):
        raise Unsupported('floor division by symbolic int')

    def __rmod__(s, o):
        if isinstance(o, (str, bytes)):
            return NotImplemented
        raise Unsupported('mod by symbolic int')

    def __pow__(s, o):
        if isinstance(o, int) and 0 <= o <= 4:
            r = z3.IntVal(1)
            for _ in range(o):
                r = r * s.z
            return SInt(r, s.is_float)
        raise Unsupported('pow of symbolic int')

    def bit_length(self):
        a = z3.If(self.z < 0, -self.z, self.z)
        e = z3.IntVal(129)
        for k in range(128, -1, -1):
            e = z3.If(a < 2 ** k, z3.IntVal(k), e)
        return SInt(e)

    def __index__(self):
        raise Unsupported('__index__ on symbolic int (C consumer)')

    def __int__(self):
        raise Unsupported('__int__ on symbolic int (C consumer)')

    def __float__(self):
        raise Unsupported('__float__ on symbolic int (C consumer)')

    def __str__(self):
        raise Unsupported('__str__ on symbolic int (C consumer)')

    def __format__(self, spec):
        raise Unsupported('__format__ on symbolic int')

    def __bool__(self):
        return E.branch(self.z != 0)

    def __repr__(self):
        return 'SInt(%s)' % (self.z,)


def concretize(x, lo, hi):
    """Fork over the feasible values of a small symbolic integer inside [lo, hi]."""
    if not isinstance(x, SInt):
        return x
    for v in range(lo, hi + 1):
        if E.branch(x.z == v):
            return v
    raise BoundExceeded('concretize: value outside [%d, %d]' % (lo, hi))


def model_int(model, term):
    v = model.eval(term, model_completion=True)
    if z3.is_int_value(v):
        return v.as_long()
    if z3.is_true(v):
        return True
    if z3.is_false(v):
        return False
    v = z3.simplify(v)
    if z3.is_int_value(v):
        return v.as_long()
    if z3.is_true(v):
        return True
    if z3.is_false(v):
        return False
    raise Unsupported('cannot evaluate %s in model' % (term,))

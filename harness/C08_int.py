"""C08 — integer and boolean text forms: round trip, written lexical space, read side."""
from symx.api import harness

from spyne.model.primitive import (Integer, UnsignedInteger, Integer8, Integer16, Integer32, Integer64,
    UnsignedInteger8, UnsignedInteger16, UnsignedInteger32, UnsignedInteger64, Boolean)
from spyne.protocol import ProtocolBase
from spyne.error import ValidationError

PROT = ProtocolBase()

# the same round trip through a validating reader: what spyne wrote for a value of the type must be accepted as that type
from harness.common import mk_element, fake_ctx
from spyne import Application, Service, rpc
from spyne.protocol.xml import XmlDocument


class _Svc(Service):
    @rpc(Integer, _returns=Integer)
    def f(ctx, a):
        return a


_APP = Application([_Svc], 'tns', in_protocol=XmlDocument(validator='soft'), out_protocol=XmlDocument())
_CTX = fake_ctx(_APP)
XSOFT = XmlDocument(app=_APP, validator='soft')


def read(sx, reader, T, text):
    if reader == 'plain':
        return PROT.from_unicode(T, text)
    return XSOFT.from_element(_CTX, T, mk_element(sx, '{tns}v', text=text))

BIG = 10 ** 30
INT_TYPES = [
    (Integer8, -2 ** 7, 2 ** 7 - 1), (Integer16, -2 ** 15, 2 ** 15 - 1),
    (Integer32, -2 ** 31, 2 ** 31 - 1), (Integer64, -2 ** 63, 2 ** 63 - 1),
    (UnsignedInteger8, 0, 2 ** 8 - 1), (UnsignedInteger16, 0, 2 ** 16 - 1),
    (UnsignedInteger32, 0, 2 ** 32 - 1), (UnsignedInteger64, 0, 2 ** 64 - 1),
    (Integer, -BIG, BIG), (UnsignedInteger, 0, BIG),
]
INT_FUNCS = ['spyne.protocol._outbase.OutProtocolBase.to_unicode',
             'spyne.protocol._outbase.OutProtocolBase.integer_to_unicode',
             'spyne.protocol._inbase.InProtocolBase.from_unicode',
             'spyne.protocol._inbase.InProtocolBase.integer_from_bytes']


@harness('C08', params=[t + (r,) for t in INT_TYPES for r in ('plain', 'xml-soft')], functions=INT_FUNCS + ['spyne.protocol.xml.XmlDocument.base_from_element'],
         label=lambda p: '%s %s' % (p[0].__type_name__, p[3]),
         bounds={'value': 'every int of the type (|v| <= 10^30 for the unbounded types); read back by the plain text reader and by '
                          'XmlDocument with soft validation'})
def int_roundtrip(sx, p):
    """from_unicode(T, to_unicode(T, v)) == v and the written text is an xs:integer literal"""
    T, lo, hi, reader = p
    v = sx.int('v', lo, hi)
    text = PROT.to_unicode(T, v)
    sx.observe('text', text)
    lex = sx.matches(r'[+-]?[0-9]+', text)
    back = read(sx, reader, T, text)
    return sx.And(lex, sx.is_int(back), sx.eq(back, v))


def _int_literal(sx, maxdigits):
    """an arbitrary xs:integer literal: optional sign, 1..maxdigits digits (leading zeros allowed)"""
    sign = sx.choose('sign', ['', '+', '-'])
    nd = sx.choose('ndigits', list(range(1, maxdigits + 1)))
    ds = sx.digits('d', nd)
    mag = sx.digits_value(ds)
    val = -mag if sign == '-' else mag
    return sign + ds, val


@harness('C08', params=INT_TYPES, functions=INT_FUNCS, label=lambda p: p[0].__type_name__,
         bounds={'literal': 'optional sign, 1..digits(max)+2 digits incl. redundant leading zeros'})
def int_read_lexical(sx, p):
    """every xs:integer literal that denotes a representable value is read as that value"""
    T, lo, hi = p
    maxd = min(len(str(max(abs(lo), abs(hi)))) + 2, 24)
    text, val = _int_literal(sx, maxd)
    sx.assume(sx.And(val >= lo, val <= hi))
    back = PROT.from_unicode(T, text)
    sx.observe('back', back)
    return sx.And(sx.is_int(back), sx.eq(back, val))


@harness('C08', functions=['spyne.protocol._outbase.OutProtocolBase.boolean_to_unicode',
                           'spyne.protocol._inbase.InProtocolBase.boolean_from_bytes'])
def bool_roundtrip(sx, p):
    v = sx.bool('v')
    text = PROT.to_unicode(Boolean, v)
    sx.observe('text', text)
    lex = sx.Or(sx.eq(text, 'true'), sx.eq(text, 'false'))
    back = PROT.from_unicode(Boolean, text)
    return sx.And(lex, sx.is_bool(back), sx.eq(back, v))


@harness('C08', functions=['spyne.protocol._inbase.InProtocolBase.boolean_from_bytes'],
         bounds={'literal': 'the four xs:boolean literals true,false,1,0'})
def bool_read_lexical(sx, p):
    lit = sx.choose('lit', ['true', 'false', '1', '0'])
    back = PROT.from_unicode(Boolean, lit)
    return sx.And(sx.is_bool(back), sx.eq(back, lit in ('true', '1')))


# ---------------------------------------------------------------- xs:double: the special values and the edges of the range
XS_DOUBLE = r'[+-]?([0-9]+(\.[0-9]*)?|\.[0-9]+)([Ee][+-]?[0-9]+)?|-?INF|NaN'
DOUBLES = [float('inf'), float('-inf'), float('nan'), 0.0, -0.0, 1e308, 1.7976931348623157e308, 5e-324, 1e22, 1e-7, 0.1, -2.5, 123456789.0]
DOUBLE_LITERALS = [('INF', float('inf')), ('-INF', float('-inf')), ('NaN', None), ('1E4', 1e4), ('-1.5e-3', -1.5e-3), ('.5', 0.5), ('5.', 5.0),
                   ('+3', 3.0), ('-0', -0.0)]


@harness('C08', functions=['spyne.protocol._outbase.OutProtocolBase.double_to_unicode', 'spyne.protocol._inbase.InProtocolBase.double_from_bytes'],
         bounds={'values': 'enumeration, no symbolic input (binary floating point is outside the engine): the three special values, '
                           'signed zeros, the largest and smallest doubles and a few ordinary ones written and read back; nine literals '
                           'of the xs:double lexical space read'})
def double_special_values(sx, p):
    """what is written for a double - infinities and NaN included - is an xs:double literal that reads back to the same
    double; INF / -INF / NaN and exponent forms are read as what they denote"""
    import math
    import re
    from spyne.model.primitive import Double
    i = sx.choose('case', list(range(len(DOUBLES) + len(DOUBLE_LITERALS))))
    if i < len(DOUBLES):
        v = DOUBLES[i]
        text = PROT.to_unicode(Double, v)
        sx.observe('text', text)
        if re.fullmatch(XS_DOUBLE, text) is None:
            return False
        back = PROT.from_unicode(Double, text)
        return math.isnan(back) if math.isnan(v) else (back == v and math.copysign(1, back) == math.copysign(1, v))
    lit, want = DOUBLE_LITERALS[i - len(DOUBLES)]
    back = PROT.from_unicode(Double, lit)
    return math.isnan(back) if want is None else (back == want and math.copysign(1, back) == math.copysign(1, want))

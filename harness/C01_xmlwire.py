"""C01 — XML/SOAP wire fidelity (partial: element construction, envelope handling and the lxml validator are
C code; the symbolic part covers the text codecs through each protocol's own handler tables and the routing of
leaf values through from_element / complex_from_element / array_from_element on a stub element tree; every
path witness then travels through the complete real pipeline - lxml parser, ServerBase, serializer - in the
native replay)."""
from symx.api import harness
from harness.common import mk_element, fake_ctx, XSI_NS

from spyne import Application, Service, rpc, ComplexModel
from spyne.model.binary import ByteArray
from spyne.model.primitive import (Integer, Unicode, Decimal, DateTime, Date, Time, Boolean, Duration, Integer8, Integer16,
    Integer32, Integer64, UnsignedInteger8, UnsignedInteger32)
from spyne.model.complex import Array, XmlAttribute, XmlData
from spyne.model.fault import Fault
from spyne.protocol.xml import XmlDocument
from spyne.protocol.soap import Soap11, Soap12
from spyne.server import ServerBase
from spyne.context import MethodContext

CAP = {}
TNS = 'tns'


class Inner(ComplexModel):
    __namespace__ = TNS
    v = Integer
    w = Unicode


class TaggedBase(ComplexModel):
    __namespace__ = TNS
    kind = Unicode(sub_name='Kind')          # published under another element name - and inherited by Tagged


class Tagged(TaggedBase):
    __namespace__ = TNS
    id = XmlAttribute(Integer)
    name = Unicode


class Obj(ComplexModel):
    __namespace__ = TNS
    _type_info = [
        ('n', Integer), ('s', Unicode), ('b', Boolean), ('inner', Inner), ('arr', Array(Integer)),
        ('many', Integer.customize(max_occurs='unbounded')), ('tagged', Tagged),
        # (a mandatory member under another element name; an attribute of the object that is called like an attribute of
        # one of its children and is not sent)
        ('alias', Unicode(sub_name='Alias', min_occurs=1)), ('opt', Integer), ('id', XmlAttribute(Integer)),
    ]


class Svc(Service):
    @rpc(Integer, Obj, _returns=Obj)
    def f(ctx, a, o):
        CAP['args'] = (a, o)
        return CAP.get('ret', o)


PROTS = {'XmlDocument': XmlDocument, 'Soap11': Soap11, 'Soap12': Soap12}
SOAP_ENV = {'Soap11': 'http://schemas.xmlsoap.org/soap/envelope/', 'Soap12': 'http://www.w3.org/2003/05/soap-envelope'}
APPS = {}


def get(pname, validator):
    if (pname, validator) not in APPS:
        P = PROTS[pname]
        app = Application([Svc], TNS, in_protocol=P(validator=validator), out_protocol=P())
        APPS[(pname, validator)] = (app, ServerBase(app))
    return APPS[(pname, validator)]


def q(name):
    return '{%s}%s' % (TNS, name)


def el(sx, name, text=None, attrib=None, children=()):
    return mk_element(sx, q(name), text=text, attrib=attrib, children=children, nsmap={None: TNS})


def build_request(sx, prot, a, o):
    """element tree of <f><a/><o>...</o></f> whose leaf texts are the protocol's own text forms of the
    (symbolic) values; absent optional members are omitted"""
    T = lambda cls, v: prot.to_unicode(cls, v)
    NIL = lambda name: el(sx, name, attrib={'{%s}nil' % XSI_NS: 'true'})          # an item that is null
    kids = [el(sx, 'n', T(Integer, o['n'])), el(sx, 's', o['s']), el(sx, 'b', T(Boolean, o['b'])),
            el(sx, 'inner', children=[el(sx, 'v', T(Integer, o['inner']['v'])), el(sx, 'w', o['inner']['w'])]),
            el(sx, 'arr', children=[el(sx, 'integer', T(Integer, x)) if x is not None else NIL('integer') for x in o['arr']])]
    kids += [el(sx, 'many', T(Integer, x)) if x is not None else NIL('many') for x in o['many']]
    kids.append(el(sx, 'tagged', attrib={'id': T(Integer, o['tagged']['id'])},
                   children=[el(sx, 'Kind', o['tagged']['kind']), el(sx, 'name', o['tagged']['name'])]))
    kids.append(el(sx, 'Alias', o['alias']))
    return el(sx, 'f', children=[el(sx, 'a', T(Integer, a)), el(sx, 'o', children=kids)])


def mk_values(sx):
    deep = sx.tier == 'thorough'
    nm = sx.choose('n_many', [2, 0, 3] if deep else [2, 0])
    na = sx.choose('n_arr', [2, 0, 3] if deep else [2, 0])
    big = 10 ** 9 if deep else 10 ** 6
    o = {'n': sx.int('n', -big, big), 's': sx.text('s', 3 if deep else 2, alphabet='ab<& '), 'b': sx.bool('b'),
         'inner': {'v': sx.int('iv', -9, 9), 'w': sx.text('iw', 2 if deep else 1, alphabet='xy&')},
         'arr': [sx.int('arr%d' % i, 0, 9) for i in range(na)],
         'many': [sx.int('many%d' % i, 0, 9) for i in range(nm)],
         'tagged': {'id': sx.int('tid', 0, 99), 'name': sx.text('tname', 1, alphabet='pq'), 'kind': sx.text('tkind', 1, alphabet='uv')},
         'alias': sx.text('alias', 1, alphabet='kl')}
    # an item of either sequence may be null: it keeps its place (as an xsi:nil element) in both directions
    hole = sx.choose('null_item', [None, ('arr', 0), ('many', 1)] if deep else [None, ('arr', 1)])
    if hole is not None and len(o[hole[0]]) > hole[1]:
        o[hole[0]][hole[1]] = None
    return sx.int('a', -99, 99), o


def matches(sx, got, o):
    if got is None or type(got).__name__ != 'Obj':
        return False
    ok = [sx.eq(got.n, o['n']), sx.eq(got.s, o['s']), sx.eq(got.b, o['b']),
          got.inner is not None and sx.eq(got.inner.v, o['inner']['v']) and True,
          got.inner is not None and sx.eq(got.inner.w, o['inner']['w']) and True,
          got.tagged is not None, sx.eq(got.alias, o['alias']), got.opt is None]
    if got.inner is None or got.tagged is None:
        return False
    ok = [sx.eq(got.n, o['n']), sx.eq(got.s, o['s']), sx.eq(got.b, o['b']), sx.eq(got.inner.v, o['inner']['v']),
          sx.eq(got.inner.w, o['inner']['w']), sx.eq(got.tagged.id, o['tagged']['id']),
          sx.eq(got.tagged.name, o['tagged']['name']), sx.eq(got.tagged.kind, o['tagged']['kind']), sx.eq(got.alias, o['alias']),
          got.opt is None,
          got.id is None]             # an attribute of a child element is not an attribute of the object
    for key in ('arr', 'many'):
        g = getattr(got, key)
        if not o[key]:
            ok.append(g is None or g == [])
        else:
            if g is None or len(g) != len(o[key]):
                return False
            ok += [(x is None) if y is None else sx.eq(x, y) for x, y in zip(g, o[key])]      # arrays keep their order
    return sx.And(*ok)


def decode_response(root, pname):
    """reference decoder of the response document (lxml tree) -> value tree"""
    from lxml import etree
    if pname != 'XmlDocument':
        body = root.find('{%s}Body' % SOAP_ENV[pname])
        root = body[0]
    res = root[0]           # fResult

    def txt(e, name):
        c = e.find(q(name))
        return None if c is None else (c.text or '')
    inner = res.find(q('inner'))
    tagged = res.find(q('tagged'))
    arr = res.find(q('arr'))
    return {'n': txt(res, 'n'), 's': txt(res, 's'), 'b': txt(res, 'b'),
            'inner': None if inner is None else {'v': txt(inner, 'v'), 'w': txt(inner, 'w')},
            'arr': None if arr is None else [None if c.get('{%s}nil' % XSI_NS) == 'true' else c.text for c in arr],
            'many': [None if c.get('{%s}nil' % XSI_NS) == 'true' else c.text for c in res.findall(q('many'))],
            'tagged': None if tagged is None else {'id': tagged.get('id'), 'name': txt(tagged, 'name'), 'kind': txt(tagged, 'Kind')},
            'alias': txt(res, 'Alias'), 'opt': txt(res, 'opt'),
            'order': [etree.QName(c).localname for c in res]}


FUNCS = ['spyne.protocol.xml.XmlDocument.deserialize', 'spyne.protocol.xml.XmlDocument.from_element',
         'spyne.protocol.xml.XmlDocument.complex_from_element', 'spyne.protocol.xml.XmlDocument.array_from_element',
         'spyne.protocol.xml.XmlDocument.base_from_element', 'spyne.protocol.xml.XmlDocument.unicode_from_element',
         'spyne.protocol._outbase.OutProtocolBase.to_unicode', 'spyne.protocol._inbase.InProtocolBase.from_unicode',
         'spyne.protocol.xml.XmlDocument.serialize', 'spyne.protocol.xml.XmlDocument.complex_to_parent',
         'spyne.protocol.soap.soap11.Soap11.decompose_incoming_envelope', 'spyne.protocol.soap.soap11.Soap11.serialize']


@harness('C01', params=[(p, v) for p in sorted(PROTS) for v in (None, 'soft')], label=lambda p: '%s validator=%s' % p,
         functions=FUNCS, max_paths=40000,
         bounds={'values': 'integer |n| <= 10^6 (thorough: 10^9), strings over {a b < & space} (2 chars; thorough: 3), boolean, nested object, wrapped '
                           'array and unwrapped repeated member of 0 or 2 ints (thorough: 0, 2 or 3), XML attribute, sub_name alias, absent '
                           'optional member, one item of a sequence null (xsi:nil) or none; all leaves symbolic',
                 'symbolic part': 'request routing on a stub element tree; the response and the envelope are checked on '
                                  'every path witness through the real lxml pipeline'})
def route_request(sx, p):
    """every leaf of a request document reaches the field it was sent for, arrays keep their order, absent
    optional members are None; and (witness replay) the function's return value is what the response denotes"""
    pname, validator = p
    app, server = get(pname, validator)
    prot = app.in_protocol
    a, o = mk_values(sx)
    root = build_request(sx, prot, a, o)
    CAP.clear()
    if sx.symbolic:
        ctx = MethodContext(server, MethodContext.SERVER)
        ctx.in_document = root
        ctx.in_body_doc = root
        ctx.method_request_string = root.tag
        ctx, = prot.generate_method_contexts(ctx)
        prot.deserialize(ctx, prot.REQUEST)
        got = ctx.in_object
        if got is None or len(got) != 2:
            return False
        return sx.And(sx.eq(got[0], a), matches(sx, got[1], o))
    # native: the same tree through the real parser, envelope handling, user function and serializer
    from lxml import etree
    body = etree.tostring(root)
    if pname != 'XmlDocument':
        body = ('<e:Envelope xmlns:e="%s"><e:Body>' % SOAP_ENV[pname]).encode() + body + b'</e:Body></e:Envelope>'
    ctx = MethodContext(server, MethodContext.SERVER)
    ctx.in_string = [body]
    ctx, = server.generate_contexts(ctx)
    if ctx.in_error is not None:
        return False
    server.get_in_object(ctx)
    if ctx.in_error is not None:
        return False
    server.get_out_object(ctx)
    if ctx.out_error is not None or 'args' not in CAP:
        return False
    ga, go = CAP['args']
    ok = [sx.eq(ga, a), matches(sx, go, o)]
    server.get_out_string(ctx)
    resp = decode_response(etree.fromstring(b''.join(ctx.out_string)), pname)
    T = lambda cls, v: prot.to_unicode(cls, v)
    want = {'n': T(Integer, o['n']), 's': o['s'], 'b': T(Boolean, o['b']),
            'inner': {'v': T(Integer, o['inner']['v']), 'w': o['inner']['w']},
            'arr': [None if x is None else T(Integer, x) for x in o['arr']] if o['arr'] else None,
            'many': [None if x is None else T(Integer, x) for x in o['many']],
            'tagged': {'id': T(Integer, o['tagged']['id']), 'name': o['tagged']['name'], 'kind': o['tagged']['kind']},
            'alias': o['alias'], 'opt': None}
    order = resp.pop('order')
    if resp['arr'] == []:
        resp['arr'] = None
    ok.append(resp == want)
    declared = ['n', 's', 'b', 'inner', 'arr', 'many', 'tagged', 'Alias', 'opt']
    ok.append(order == sorted(order, key=declared.index))       # declared field order on the wire
    return sx.And(*ok)


# ---------------------------------------------------------------- leaf codecs through each protocol's tables
BOUNDED = {'Integer8': (Integer8, -2 ** 7, 2 ** 7 - 1), 'Integer16': (Integer16, -2 ** 15, 2 ** 15 - 1),
           'Integer32': (Integer32, -2 ** 31, 2 ** 31 - 1), 'Integer64': (Integer64, -2 ** 63, 2 ** 63 - 1),
           'UnsignedInteger8': (UnsignedInteger8, 0, 2 ** 8 - 1), 'UnsignedInteger32': (UnsignedInteger32, 0, 2 ** 32 - 1)}
LEAF = [(k, v[0]) for k, v in sorted(BOUNDED.items())] + [('Integer', Integer), ('Decimal', Decimal), ('Boolean', Boolean), ('Date', Date), ('Time', Time),
        ('DateTime naive', DateTime), ('DateTime offset', DateTime), ('Duration', Duration), ('Unicode', Unicode),
        ('ByteArray chunks=(3,)', ByteArray), ('ByteArray chunks=(1, 2)', ByteArray), ('ByteArray chunks=(2, 2)', ByteArray),
        ('ByteArray(hex) chunks=(1, 1)', ByteArray(encoding='hex'))]
XCTX = {}


@harness('C01', params=[(p, i) for p in sorted(PROTS) for i in range(len(LEAF))],
         label=lambda p: '%s %s' % (p[0], LEAF[p[1]][0]), functions=FUNCS[4:8],
         bounds={'values': 'as C08 (every int |v| <= 10^12, decimals dd.dd, all dates/times/offsets, durations up to '
                           '9999 days), but through the handler tables of the concrete protocol instance and '
                           'base_from_element / unicode_from_element on an element stub'})
def leaf_roundtrip(sx, p):
    """what a protocol instance writes for a leaf, the same instance reads back as an equal value"""
    pname, i = p
    app, server = get(pname, 'soft')
    prot = app.in_protocol
    ctx = XCTX.setdefault(pname, fake_ctx(app))
    label, T = LEAF[i]
    if label in BOUNDED:
        v = sx.int('v', BOUNDED[label][1], BOUNDED[label][2])       # every value of the fixed-width type
    elif label == 'Integer':
        v = sx.int('v', -10 ** 12, 10 ** 12)
    elif label == 'Decimal':
        v = sx.decimal('v', 8, -4) if sx.tier == 'thorough' else sx.decimal('v', 4, -2)
    elif label == 'Boolean':
        v = sx.bool('v')
    elif label == 'Date':
        v = sx.date('v')
    elif label == 'Time':
        v = sx.time('v')
    elif label == 'DateTime naive':
        v = sx.datetime('v', tz='naive')
    elif label == 'DateTime offset':
        v = sx.datetime('v', tz='offset', ymin=2, ymax=9998)    # instants outside 0001..9999 UTC are not values of the type
    elif label == 'Duration':
        v = sx.timedelta('v', maxdays=9999)
        sx.assume(sx.td_microseconds(v) >= 0)
    elif label.startswith('ByteArray'):
        shape = eval(label.split('chunks=')[1])
        v = tuple(sx.text('c%d' % j, n, lo=0, hi=255, bytes_=True) for j, n in enumerate(shape))
    else:
        v = sx.text('v', 6 if sx.tier == 'thorough' else 3, alphabet='a <&é')
    if sx.symbolic:
        if label.startswith('ByteArray'):
            text = app.out_protocol.to_unicode(T, v, app.out_protocol.binary_encoding)      # as byte_array_to_parent does
        else:
            text = app.out_protocol.to_unicode(T, v)
        back = prot.from_element(ctx, T, mk_element(sx, q('x'), text=text, nsmap={None: TNS}))
    else:
        # native: the protocol's own element writer and a real lxml element
        from lxml import etree
        parent = etree.Element('parent')
        app.out_protocol.to_parent(ctx, T, v, parent, TNS, 'x')
        back = prot.from_element(ctx, T, etree.fromstring(etree.tostring(parent))[0])
    if label.startswith('ByteArray'):
        if not isinstance(back, (list, tuple)):
            return False
        whole, got = b'', b''
        for c in v:
            whole = whole + c
        for c in back:
            got = got + c
        return sx.eq(got, whole)
    if label == 'DateTime offset':
        return sx.And(sx.eq(back, v), sx.eq(sx.offset_minutes(back), sx.offset_minutes(v)))
    if label == 'Duration':
        return sx.eq(sx.td_microseconds(back), sx.td_microseconds(v))
    return sx.eq(back, v)


# ---------------------------------------------------------------- SOAP headers
class Session(ComplexModel):
    __namespace__ = TNS
    token = Unicode
    seq = Integer


class Trace(ComplexModel):
    __namespace__ = TNS
    tid = Integer


class Tenant(ComplexModel):
    __namespace__ = TNS
    name = Unicode


HCAP = {}


class HSvc(Service):
    __in_header__ = (Session, Trace, Tenant)

    @rpc(Integer, _returns=Integer)
    def h(ctx, a):
        HCAP['hdr'] = ctx.in_header
        HCAP['a'] = a
        return a


HAPPS = {}


@harness('C01', params=[(p, v) for p in ('Soap11', 'Soap12') for v in (None, 'soft')], label=lambda p: '%s validator=%s' % p,
         functions=['spyne.protocol.soap.soap11.Soap11.deserialize', 'spyne.protocol.soap.soap11.Soap11.decompose_incoming_envelope',
                    'spyne.protocol.xml.XmlDocument.complex_from_element'],
         bounds={'headers': 'three declared header classes; every subset present, in either document order; leaf values symbolic'})
def soap_headers(sx, p):
    """every SOAP header element that is sent reaches ctx.in_header at the position of its declared class,
    whichever other headers are present and in whatever order; absent headers are None"""
    return _soap_headers(sx, p)


def _soap_headers(sx, p, types_only=False):
    """every SOAP header element that is sent reaches ctx.in_header at the position of its declared class,
    whichever other headers are present and in whatever order; absent headers are None"""
    pname, validator = p
    if p not in HAPPS:
        P = PROTS[pname]
        app = Application([HSvc], TNS, in_protocol=P(validator=validator), out_protocol=P())
        HAPPS[p] = (app, ServerBase(app))
    app, server = HAPPS[p]
    prot = app.in_protocol
    present = [sx.choose('has_%s' % n, [1, 0]) for n in ('Session', 'Trace', 'Tenant')]
    order = sx.choose('order', ['declared', 'reversed'])
    tok, seq, tid, ten = sx.text('tok', 2, alphabet='ab'), sx.int('seq', 0, 99), sx.int('tid', 0, 99), sx.text('ten', 1, alphabet='xy')
    T = lambda v: prot.to_unicode(Integer, v)
    hs = []
    if present[0]:
        hs.append(el(sx, 'Session', children=[el(sx, 'token', tok), el(sx, 'seq', T(seq))]))
    if present[1]:
        hs.append(el(sx, 'Trace', children=[el(sx, 'tid', T(tid))]))
    if present[2]:
        hs.append(el(sx, 'Tenant', children=[el(sx, 'name', ten)]))
    if order == 'reversed':
        hs.reverse()
    a = sx.int('a', 0, 9)
    body = el(sx, 'h', children=[el(sx, 'a', T(a))])
    HCAP.clear()
    if sx.symbolic:
        ctx = MethodContext(server, MethodContext.SERVER)
        ctx.in_document = body
        ctx.in_body_doc = body
        ctx.in_header_doc = hs if hs else None
        ctx.method_request_string = body.tag
        ctx, = prot.generate_method_contexts(ctx)
        prot.deserialize(ctx, prot.REQUEST)
        hdr, ga = ctx.in_header, ctx.in_object[0] if ctx.in_object else None
    else:
        from lxml import etree
        env = SOAP_ENV[pname]
        doc = etree.Element('{%s}Envelope' % env, nsmap={'e': env})
        if hs:
            he = etree.SubElement(doc, '{%s}Header' % env)
            for x in hs:
                he.append(x)
        etree.SubElement(doc, '{%s}Body' % env).append(body)
        ctx = MethodContext(server, MethodContext.SERVER)
        ctx.in_string = [etree.tostring(doc)]
        ctx, = server.generate_contexts(ctx)
        if ctx.in_error is not None:
            return False
        server.get_in_object(ctx)
        if ctx.in_error is not None:
            return False
        server.get_out_object(ctx)
        if ctx.out_error is not None:
            return False
        hdr, ga = HCAP.get('hdr'), HCAP.get('a')
    if types_only:
        # C04: whatever is in a header slot is an instance of the class declared for that slot
        if hdr is None:
            return True
        if not isinstance(hdr, (list, tuple)):
            hdr = [hdr]
        return len(hdr) == 3 and all(x is None or type(x).__name__ == n
                                     for x, n in zip(hdr, ('Session', 'Trace', 'Tenant')))
    ok = [sx.eq(ga, a)]
    if not any(present):
        ok.append(hdr is None or all(x is None for x in hdr))
        return sx.And(*ok)
    if hdr is None or len(hdr) != 3:
        return False
    s_, t_, n_ = hdr
    ok.append((s_ is not None) == bool(present[0]) and (t_ is not None) == bool(present[1]) and (n_ is not None) == bool(present[2]))
    if present[0] and s_ is not None:
        ok += [type(s_).__name__ == 'Session', sx.eq(s_.token, tok), sx.eq(s_.seq, seq)]
    if present[1] and t_ is not None:
        ok += [type(t_).__name__ == 'Trace', sx.eq(t_.tid, tid)]
    if present[2] and n_ is not None:
        ok += [type(n_).__name__ == 'Tenant', sx.eq(n_.name, ten)]
    return sx.And(*ok)


# ---------------------------------------------------------------- bare body styles
class BInner(ComplexModel):
    __namespace__ = TNS
    v = Integer
    w = Unicode


class BareSvc(Service):
    @rpc(BInner, _returns=BInner, _body_style='bare')
    def b_obj(ctx, p):
        CAP['args'] = (p,)
        return p

    @rpc(Integer, _returns=Integer, _body_style='bare')
    def b_int(ctx, a):
        CAP['args'] = (a,)
        return a

    @rpc(Integer, Unicode, _returns=Integer, _body_style='out_bare')
    def b_out(ctx, a, s):
        CAP['args'] = (a, s)
        return a

    @rpc(Array(Integer), _returns=Array(Integer), _body_style='bare')
    def b_arr(ctx, xs):
        CAP['args'] = (xs,)
        return xs


BAPPS = {}


@harness('C01', params=[(p, m) for p in sorted(PROTS) for m in ('b_obj', 'b_int', 'b_out', 'b_arr')], label=lambda p: '%s %s' % p,
         functions=['spyne.protocol.xml.XmlDocument.deserialize', 'spyne.protocol.xml.XmlDocument.serialize',
                    'spyne.protocol.soap.soap11.Soap11.deserialize', 'spyne.protocol.soap.soap11.Soap11.serialize'],
         bounds={'styles': "bare with an object / an integer / an array of 0..2 integers, out_bare with two arguments; leaves "
                           "symbolic (|n| <= 10^6, 2-char strings); the response is decoded on every path witness"})
def bare_styles(sx, p):
    """bare and out_bare methods: the function receives the value the body entry denotes and the response's single body
    entry, named <method>Response, denotes exactly what it returned"""
    pname, m = p
    if pname not in BAPPS:
        P = PROTS[pname]
        app = Application([BareSvc], TNS, in_protocol=P(validator='soft'), out_protocol=P())
        BAPPS[pname] = (app, ServerBase(app))
    app, server = BAPPS[pname]
    prot = app.in_protocol
    T = lambda v: prot.to_unicode(Integer, v)
    a = sx.int('a', -10 ** 6, 10 ** 6)
    s = sx.text('s', 2, alphabet='ab <&')
    n = sx.choose('n', [2, 0, 1]) if m == 'b_arr' else 0
    xs = [sx.int('x%d' % i, -99, 99) for i in range(n)]
    if m == 'b_obj':
        root = el(sx, m, children=[el(sx, 'v', T(a)), el(sx, 'w', s)])
    elif m == 'b_int':
        root = el(sx, m, T(a))
    elif m == 'b_out':
        root = el(sx, m, children=[el(sx, 'a', T(a)), el(sx, 's', s)])
    else:
        root = el(sx, m, children=[el(sx, 'integer', T(x)) for x in xs])
    CAP.clear()

    def args_ok(got):
        if m == 'b_obj':
            return got is not None and sx.And(sx.eq(got[0].v, a), sx.eq(got[0].w, s))
        if m == 'b_int':
            return sx.eq(got[0], a)
        if m == 'b_out':
            return sx.And(sx.eq(got[0], a), sx.eq(got[1], s))
        g = got[0] or []
        return len(g) == n and sx.And(*[sx.eq(x, y) for x, y in zip(g, xs)])
    if sx.symbolic:
        ctx = MethodContext(server, MethodContext.SERVER)
        ctx.in_document = root
        ctx.in_body_doc = root
        ctx.in_header_doc = None
        ctx.method_request_string = root.tag
        ctx, = prot.generate_method_contexts(ctx)
        prot.deserialize(ctx, prot.REQUEST)
        got = ctx.in_object
        if m != 'b_out':
            got = [got]         # bare: the message object is the argument
        return args_ok(got)
    from lxml import etree
    body = etree.tostring(root)
    if pname != 'XmlDocument':
        body = ('<e:Envelope xmlns:e="%s"><e:Body>' % SOAP_ENV[pname]).encode() + body + b'</e:Body></e:Envelope>'
    ctx = MethodContext(server, MethodContext.SERVER)
    ctx.in_string = [body]
    ctx, = server.generate_contexts(ctx)
    if ctx.in_error is not None:
        return False
    server.get_in_object(ctx)
    if ctx.in_error is not None:
        return False
    server.get_out_object(ctx)
    if ctx.out_error is not None or 'args' not in CAP:
        return False
    ok = [args_ok(CAP['args'])]
    server.get_out_string(ctx)
    resp = etree.fromstring(b''.join(ctx.out_string))
    if pname != 'XmlDocument':
        b = resp.find('{%s}Body' % SOAP_ENV[pname])
        if b is None or len(b) != 1:
            return False
        resp = b[0]
    ok.append(resp.tag == q(m + 'Response'))
    if m == 'b_obj':
        ok.append([(etree.QName(c).localname, c.text) for c in resp] == [('v', T(a)), ('w', s)])
    elif m in ('b_int', 'b_out'):
        ok.append(len(resp) == 0 and resp.text == T(a))
    else:
        ok.append([c.text for c in resp] == [T(x) for x in xs])
    return sx.And(*ok)


# ---------------------------------------------------------------- the Spyne client: call styles, loopback, response headers
from spyne.client import RemoteProcedureBase


class CTrace(ComplexModel):
    __namespace__ = TNS
    tid = Integer
    note = Unicode


class ClientSvc(Service):
    __out_header__ = CTrace

    @rpc(Integer, Unicode, Decimal, Boolean, _returns=Unicode)
    def record(ctx, n, s, amount, flag):
        CAP['args'] = (n, s, amount, flag)
        ctx.out_header = CTrace(tid=n, note=s)
        return s


CAPPS2 = {}


def _client_app(pname):
    if pname not in CAPPS2:
        P = PROTS[pname]
        app = Application([ClientSvc], TNS, in_protocol=P(validator='soft'), out_protocol=P())
        CAPPS2[pname] = (app, ServerBase(app))
    return CAPPS2[pname]


class _Loopback(RemoteProcedureBase):
    """in-process transport: the request bytes go through the real server pipeline, the response bytes come back"""
    def __call__(self, *args, **kwargs):
        from spyne.server import ServerBase as _SB
        ctx = self.contexts[0]
        self.get_out_object(ctx, args, kwargs)
        self.get_out_string(ctx)
        server = _SB(self.app)
        sctx = MethodContext(server, MethodContext.SERVER)
        sctx.in_string = [b''.join(ctx.out_string)]
        sctx, = server.generate_contexts(sctx)
        server.get_in_object(sctx)
        if sctx.in_error is None:
            server.get_out_object(sctx)
        server.get_out_string(sctx)
        self.wire = b''.join(sctx.out_string)
        ctx.in_string = [self.wire]
        self.get_in_object(ctx)
        self.ctx = ctx
        return ctx.in_object


@harness('C01', params=sorted(PROTS), functions=['spyne.client._base.RemoteProcedureBase.get_out_object',
                                                'spyne.client._base.RemoteProcedureBase.get_in_object',
                                                'spyne.protocol.soap.soap11.Soap11.serialize'],
         bounds={'call': 'a four-argument method called through the Spyne client with k = 0..4 leading positional arguments and any '
                         'subset of the remaining ones by keyword; values symbolic (|n| <= 99, 2-char string, decimal d.d, boolean); '
                         'symbolic part: argument marshalling; every witness: full loopback through the real server, the response and '
                         '(SOAP) the response header decoded by the client'})
def client_call_styles(sx, pname):
    """the function receives what the client was given, however the arguments are spelled (positional, keyword or mixed),
    the client decodes the returned value, and a response header set by the function arrives in the envelope's own
    namespace"""
    app, server = _client_app(pname)
    names = ['n', 's', 'amount', 'flag']
    vals = {'n': sx.int('n', -99, 99), 's': sx.text('s', 2, alphabet='ab&'), 'amount': sx.decimal('amount', 2, -1),
            'flag': sx.bool('flag')}
    k = sx.choose('positional', [0, 1, 2, 3, 4])
    args = tuple(vals[x] for x in names[:k])
    kwargs = {}
    for x in names[k:]:
        if sx.choose('kw_' + x, [1, 0]):
            kwargs[x] = vals[x]
    want = [vals[x] if (i < k or x in kwargs) else None for i, x in enumerate(names)]
    rp = _Loopback('http://loopback/', app, 'record')
    if sx.symbolic:
        ctx = rp.contexts[0]
        rp.get_out_object(ctx, args, kwargs)
        got = ctx.out_object
        return len(got) == 4 and sx.And(*[(g is None) if w is None else sx.eq(g, w) for g, w in zip(got, want)])
    CAP.clear()
    ret = rp(*args, **kwargs)
    if 'args' not in CAP:
        return False
    ok = [list(CAP['args']) == want, ret == want[1]]
    if pname != 'XmlDocument':
        from lxml import etree
        root = etree.fromstring(rp.wire)
        hdr = root.find('{%s}Header' % SOAP_ENV[pname])
        if hdr is None:
            return False
        t = hdr.find(q('CTrace'))
        ok.append(t is not None and t.findtext(q('tid')) == (None if want[0] is None else str(want[0]))
                  and (t.findtext(q('note')) or None) == (want[1] or None))
        ih = rp.ctx.in_header
        ih = ih[0] if isinstance(ih, (list, tuple)) and ih else ih
        ok.append(ih is not None and ih.tid == want[0])
    return all(ok)


# ---------------------------------------------------------------- request documents in other encodings than UTF-8
@harness('C01', params=sorted(PROTS), functions=['spyne.protocol.soap.soap11._parse_xml_string',
                                                'spyne.protocol.xml.XmlDocument.create_in_document'],
         bounds={'encodings': 'the request document encoded as utf-8, iso-8859-1, windows-1252 or utf-16; the charset announced in the '
                              'Content-Type header or not; the encoding declared in the XML declaration or not (combinations a '
                              'conformant client can send); three texts with non-ASCII characters; through WsgiApplication'})
def request_encodings(sx, pname):
    """the characters the client sent are the characters the function receives and the response denotes, whatever
    encoding the request document is in"""
    import io
    from lxml import etree
    from spyne.server.wsgi import WsgiApplication
    app, server = _client_app(pname)
    enc = sx.choose('encoding', ['utf-8', 'iso-8859-1', 'windows-1252', 'utf-16'])
    announce = sx.choose('charset_in_content_type', [True, False])
    declare = sx.choose('encoding_declaration', [True, False])
    s = sx.choose('text', [u'Zo\xeb', u'\xf1and\xfa \xe9', u'plain'])
    if not declare and not announce and enc not in ('utf-8', 'utf-16'):
        sx.outside('a document in a legacy encoding that says so nowhere is not conformant')
    if enc == 'utf-16' and (announce or not declare):
        sx.outside('UTF-16 is detected from the byte order mark; kept to the declared, unannounced spelling')
    inner = u'<record xmlns="tns"><n>7</n><s>%s</s></record>' % s
    if pname != 'XmlDocument':
        inner = u'<e:Envelope xmlns:e="%s"><e:Body>%s</e:Body></e:Envelope>' % (SOAP_ENV[pname], inner)
    doc = ((u'<?xml version="1.0" encoding="%s"?>' % enc) if declare else u'') + inner
    body = doc.encode(enc)
    ctype = 'text/xml' if pname != 'Soap12' else 'application/soap+xml'
    if announce:
        ctype += '; charset=%s' % enc
    environ = {'REQUEST_METHOD': 'POST', 'PATH_INFO': '/', 'QUERY_STRING': '', 'SERVER_NAME': 'localhost', 'SERVER_PORT': '80',
               'wsgi.url_scheme': 'http', 'wsgi.input': io.BytesIO(body), 'CONTENT_LENGTH': str(len(body)), 'CONTENT_TYPE': ctype}
    CAP.clear()
    status = []
    out = b''.join(WsgiApplication(app)(environ, lambda st, h, e=None: status.append(st)))
    sx.observe('status', status)
    if not status[0].startswith('200') or 'args' not in CAP:
        return False
    root = etree.fromstring(out)
    texts = [e.text for e in root.iter() if isinstance(e.tag, str) and etree.QName(e).localname == 'recordResult']
    return CAP['args'][1] == s and texts == [s]

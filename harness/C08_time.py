"""C08 — DateTime / Date / Time / Duration / Decimal text forms."""
from symx.api import harness

from spyne.model.primitive import DateTime, Date, Time, Duration, Decimal
from spyne.protocol import ProtocolBase
import pytz

PROT = ProtocolBase()

TZ = r'(Z|[+-]((0[0-9]|1[0-3]):[0-5][0-9]|14:00))?'
XS_DATE = r'-?([1-9][0-9]{3,}|0[0-9]{3})-(0[1-9]|1[0-2])-(0[1-9]|[12][0-9]|3[01])'
XS_TIME = r'(([01][0-9]|2[0-3]):[0-5][0-9]:[0-5][0-9](\.[0-9]+)?|24:00:00(\.0+)?)'
XS_DATETIME = XS_DATE + 'T' + XS_TIME + TZ
XS_DECIMAL = r'[+-]?([0-9]+(\.[0-9]*)?|\.[0-9]+)'

IN_FUNCS = ['spyne.protocol._inbase.InProtocolBase.datetime_from_unicode_iso',
            'spyne.protocol._inbase._parse_datetime_iso_match',
            'spyne.protocol._inbase.InProtocolBase.date_from_unicode_iso',
            'spyne.protocol._inbase.InProtocolBase.time_from_unicode',
            'spyne.protocol._inbase.InProtocolBase.duration_from_unicode',
            'spyne.protocol._inbase.InProtocolBase.decimal_from_unicode']
OUT_FUNCS = ['spyne.protocol._outbase.OutProtocolBase._datetime_to_unicode',
             'spyne.protocol._outbase.OutProtocolBase.date_to_unicode',
             'spyne.protocol._outbase.OutProtocolBase.time_to_unicode',
             'spyne.protocol._outbase.OutProtocolBase.duration_to_unicode',
             'spyne.protocol._outbase.OutProtocolBase.decimal_to_unicode']

DT_UTC = DateTime(as_timezone=pytz.utc)
DT_NOTZ = DateTime(timezone=False)
DT_Z530 = DateTime(as_timezone=pytz.FixedOffset(330))
DT_ZM5_NOTZ = DateTime(as_timezone=pytz.FixedOffset(-300), timezone=False)
ZONED = {id(DT_UTC): 0, id(DT_Z530): 330, id(DT_ZM5_NOTZ): -300}

# (label, model, tz kind of the value)
DT_PARAMS = [('naive', DateTime, 'naive'), ('utc', DateTime, 'utc'), ('offset', DateTime, 'offset'),
             ('as_timezone=utc/offset', DT_UTC, 'offset'), ('as_timezone=utc/naive', DT_UTC, 'naive'),
             ('timezone=False/offset', DT_NOTZ, 'offset'), ('timezone=False/naive', DT_NOTZ, 'naive'),
             ('as_timezone=+05:30/offset', DT_Z530, 'offset'), ('as_timezone=+05:30/naive', DT_Z530, 'naive'),
             ('as_timezone=-05:00,timezone=False/offset', DT_ZM5_NOTZ, 'offset'),
             ('as_timezone=-05:00,timezone=False/naive', DT_ZM5_NOTZ, 'naive')]


@harness('C08', params=DT_PARAMS, functions=IN_FUNCS[:2] + OUT_FUNCS[:1], label=lambda p: p[0],
         bounds={'value': 'every datetime 0001..9999 (0002..9998 with as_timezone), all microseconds, all 1681 offsets -14:00..+14:00 '
                          '(symbolic minutes), UTC, naive'})
def datetime_roundtrip(sx, p):
    """text is an xs:dateTime literal and reads back to the same instant and UTC offset"""
    label, T, tzkind = p
    # zone conversion at the very edge of datetime's range overflows inside CPython itself
    v = sx.datetime('v', tz=tzkind, ymin=2, ymax=9998) if id(T) in ZONED else sx.datetime('v', tz=tzkind)
    text = PROT.to_unicode(T, v)
    sx.observe('text', text)
    lex = sx.matches(XS_DATETIME, text)
    back = PROT.from_unicode(T, text)
    off_v, off_b = sx.offset_minutes(v), sx.offset_minutes(back)
    if T is DT_NOTZ:
        # the zone is dropped on purpose: local fields survive, the value read is naive
        want = v.replace(tzinfo=None)
        return sx.And(lex, off_b is None, sx.eq(back, want))
    if id(T) in ZONED:
        zone = ZONED[id(T)]
        if off_v is None:
            # naive values are written as they are and read back tagged with the zone (local fields unchanged)
            return sx.And(lex, sx.eq(off_b, zone), sx.eq(back.replace(tzinfo=None), v))
        # aware values are converted to the zone; with timezone=False the literal carries no offset and the reader
        # puts the zone back: same instant either way
        return sx.And(lex, sx.eq(off_b, zone), sx.eq(back, v))
    if off_v is None:
        return sx.And(lex, off_b is None, sx.eq(back, v))
    return sx.And(lex, off_b is not None, sx.eq(off_b, off_v), sx.eq(back, v))


def _digits_fields(sx, spec):
    out = {}
    for name, n in spec:
        out[name] = sx.digits(name, n)
    return out


@harness('C08', params=['Z', 'offset', 'naive'], functions=IN_FUNCS[:2],
         bounds={'literal': 'YYYY-MM-DDThh:mm:ss[.f{1..6}][Z|(+|-)hh:mm], every digit symbolic, '
                            'offset within -14:00..+14:00, fields within their xs:dateTime ranges'})
def datetime_read_lexical(sx, tzkind):
    """every xs:dateTime literal is read as the instant, offset and microsecond it denotes"""
    f = _digits_fields(sx, [('Y', 4), ('Mo', 2), ('D', 2), ('h', 2), ('mi', 2), ('s', 2)])
    nfrac = sx.choose('nfrac', [0, 1, 3, 6, 2, 4, 5])
    text = f['Y'] + '-' + f['Mo'] + '-' + f['D'] + 'T' + f['h'] + ':' + f['mi'] + ':' + f['s']
    us = 0
    if nfrac:
        fr = sx.digits('frac', nfrac)
        text = text + '.' + fr
        us = sx.digits_value(fr) * 10 ** (6 - nfrac)
    want_off = None
    if tzkind == 'Z':
        text = text + 'Z'
        want_off = 0
    elif tzkind == 'offset':
        sign = sx.choose('sign', ['+', '-'])
        oh, om = sx.digits('oh', 2), sx.digits('om', 2)
        ohv, omv = sx.digits_value(oh), sx.digits_value(om)
        sx.assume(sx.And(omv <= 59, ohv * 60 + omv <= 840))
        text = text + sign + oh + ':' + om
        want_off = (ohv * 60 + omv) * (-1 if sign == '-' else 1)
    Y, Mo, D, h, mi, s = [sx.digits_value(f[k]) for k in ('Y', 'Mo', 'D', 'h', 'mi', 's')]
    sx.assume(sx.And(Y >= 1, Mo >= 1, Mo <= 12, D >= 1, D <= 28, h <= 23, mi <= 59, s <= 59))
    back = PROT.from_unicode(DateTime, text)
    off_b = sx.offset_minutes(back)
    fields = sx.And(sx.eq(back.year, Y), sx.eq(back.month, Mo), sx.eq(back.day, D), sx.eq(back.hour, h),
                    sx.eq(back.minute, mi), sx.eq(back.second, s), sx.eq(back.microsecond, us))
    if want_off is None:
        return sx.And(fields, off_b is None)
    return sx.And(fields, off_b is not None, sx.eq(off_b, want_off))


@harness('C08', functions=[IN_FUNCS[2], OUT_FUNCS[1]], bounds={'value': 'every date 0001-01-01..9999-12-31'})
def date_roundtrip(sx, p):
    v = sx.date('v')
    text = PROT.to_unicode(Date, v)
    sx.observe('text', text)
    lex = sx.matches(XS_DATE, text)
    back = PROT.from_unicode(Date, text)
    return sx.And(lex, sx.eq(back, v))


@harness('C08', params=['', 'Z', 'offset'], functions=[IN_FUNCS[2]],
         bounds={'literal': 'YYYY-MM-DD[Z|(+|-)hh:mm], every digit symbolic'})
def date_read_lexical(sx, tzkind):
    f = _digits_fields(sx, [('Y', 4), ('Mo', 2), ('D', 2)])
    text = f['Y'] + '-' + f['Mo'] + '-' + f['D']
    if tzkind == 'Z':
        text = text + 'Z'
    elif tzkind == 'offset':
        sign = sx.choose('sign', ['+', '-'])
        oh, om = sx.digits('oh', 2), sx.digits('om', 2)
        sx.assume(sx.And(sx.digits_value(om) <= 59, sx.digits_value(oh) * 60 + sx.digits_value(om) <= 840))
        text = text + sign + oh + ':' + om
    Y, Mo, D = [sx.digits_value(f[k]) for k in ('Y', 'Mo', 'D')]
    sx.assume(sx.And(Y >= 1, Mo >= 1, Mo <= 12, D >= 1, D <= 28))
    back = PROT.from_unicode(Date, text)
    return sx.And(sx.eq(back.year, Y), sx.eq(back.month, Mo), sx.eq(back.day, D))


@harness('C08', params=['naive', 'utc', 'offset'], functions=[IN_FUNCS[3], OUT_FUNCS[2]],
         bounds={'value': 'every time of day, all microseconds; naive, UTC and every offset -14:00..+14:00'})
def time_roundtrip(sx, tzkind):
    """the text is an xs:time literal and reads back to the same time of day and the same UTC offset"""
    v = sx.time('v', tz=tzkind)
    text = PROT.to_unicode(Time, v)
    sx.observe('text', text)
    lex = sx.matches(XS_TIME + TZ, text)
    back = PROT.from_unicode(Time, text)
    off_v, off_b = sx.offset_minutes(v), sx.offset_minutes(back)
    same = sx.And(sx.eq(back.hour, v.hour), sx.eq(back.minute, v.minute), sx.eq(back.second, v.second),
                  sx.eq(back.microsecond, v.microsecond))
    if off_v is None:
        return sx.And(lex, off_b is None, same)
    return sx.And(lex, off_b is not None, sx.eq(off_b, off_v), same)


@harness('C08', params=['naive', 'Z', 'offset'], functions=[IN_FUNCS[3]],
         bounds={'literal': 'hh:mm:ss[.f{1..6}] followed by nothing, Z or an offset -14:00..+14:00; every digit symbolic'})
def time_read_lexical(sx, tzkind):
    """every xs:time literal is read as the time of day and the offset it denotes"""
    f = _digits_fields(sx, [('h', 2), ('mi', 2), ('s', 2)])
    nfrac = sx.choose('nfrac', [0, 1, 2, 3, 4, 5, 6])
    text = f['h'] + ':' + f['mi'] + ':' + f['s']
    us = 0
    if nfrac:
        fr = sx.digits('frac', nfrac)
        text = text + '.' + fr
        us = sx.digits_value(fr) * 10 ** (6 - nfrac)
    want_off = None
    if tzkind == 'Z':
        text = text + 'Z'
        want_off = 0
    elif tzkind == 'offset':
        sign = sx.choose('sign', ['+', '-'])
        oh, om = sx.digits('oh', 2), sx.digits('om', 2)
        sx.assume(sx.And(sx.digits_value(om) <= 59, sx.digits_value(oh) * 60 + sx.digits_value(om) <= 840))
        text = text + sign + oh + ':' + om
        want_off = (sx.digits_value(oh) * 60 + sx.digits_value(om)) * (1 if sign == '+' else -1)
    h, mi, s = [sx.digits_value(f[k]) for k in ('h', 'mi', 's')]
    sx.assume(sx.And(h <= 23, mi <= 59, s <= 59))
    back = PROT.from_unicode(Time, text)
    off_b = sx.offset_minutes(back)
    ok = sx.And(sx.eq(back.hour, h), sx.eq(back.minute, mi), sx.eq(back.second, s), sx.eq(back.microsecond, us))
    if want_off is None:
        return sx.And(ok, off_b is None)
    return sx.And(ok, off_b is not None, sx.eq(off_b, want_off))


# ---- Duration
DUR_RE = (r'(?P<sign>-?)P(?:(?P<Y>[0-9]+)Y)?(?:(?P<Mo>[0-9]+)M)?(?:(?P<D>[0-9]+)D)?'
          r'(?:T(?:(?P<h>[0-9]+)H)?(?:(?P<mi>[0-9]+)M)?(?:(?P<s>[0-9]+)(?:\.(?P<f>[0-9]+))?S)?)?')


def xsd_duration_us(sx, text):
    """reference reader of the XSD duration grammar (day/time part): microseconds denoted by text,
    or None if the text is not an xs:duration literal with <= 6 fraction digits.  Uses python's re
    on concrete text and the symbolic matcher on symbolic text."""
    import re
    if sx.symbolic and not isinstance(text, str):
        from symx.strs import re_match
        m = re_match(re.compile(DUR_RE), text, full=True)
    else:
        m = re.fullmatch(DUR_RE, text)
    if m is None:
        return None
    g = m.groupdict()
    if g['Y'] is not None or g['Mo'] is not None:
        return None
    if all(g[k] is None for k in ('D', 'h', 'mi', 's')):
        return None         # 'P' or 'PT' alone are not durations
    tpos = text.find('T')
    if tpos >= 0 and all(g[k] is None for k in ('h', 'mi', 's')):
        return None         # 'T' must be followed by a time item
    val = lambda k: sx.digits_value(g[k]) if g[k] is not None else 0
    us = ((val('D') * 24 + val('h')) * 60 + val('mi')) * 60 + val('s')
    us = us * 1000000
    if g['f'] is not None:
        n = sx.length(g['f'])
        if n > 6:
            return None
        us = us + val('f') * 10 ** (6 - n)
    neg = sx.length(g['sign']) > 0
    return -us if neg else us


DUR_PARAMS = [('pos', 0, 0), ('pos', 0, 1), ('pos', 1, 0), ('pos', 1, 1),
              ('neg', 0, 0), ('neg', 0, 1), ('neg', 1, 0), ('neg', 1, 1)]


@harness('C08', params=DUR_PARAMS, functions=[OUT_FUNCS[3], IN_FUNCS[4]],
         label=lambda p: '%s days%s us%s' % (p[0], '!=0' if p[1] else '==0', '!=0' if p[2] else '==0'),
         bounds={'value': '|days| <= 99999 (quick) / 999999999 (thorough), all seconds of the day, all '
                          'microseconds; split by sign / days==0 / microseconds==0'})
def duration_roundtrip(sx, p):
    """written text denotes the same duration under the XSD grammar and reads back equal"""
    sign, dnz, usnz = p
    maxd = 99999 if sx.tier == 'quick' else 999999999
    v = sx.timedelta('v', maxdays=maxd)
    us_total = sx.td_microseconds(v)
    sx.assume(us_total < 0 if sign == 'neg' else us_total >= 0)
    sx.assume((v.days != 0) if dnz else (v.days == 0)) if sign == 'pos' else \
        sx.assume((v.days != -1) if dnz else (v.days == -1))
    sx.assume((v.microseconds != 0) if usnz else (v.microseconds == 0))
    text = PROT.to_unicode(Duration, v)
    sx.observe('text', text)
    denoted = xsd_duration_us(sx, text)
    if denoted is None:
        return False
    back = PROT.from_unicode(Duration, text)
    return sx.And(sx.eq(denoted, us_total), sx.eq(sx.td_microseconds(back), us_total))


@harness('C08', params=[0, 1, 2, 3, 4, 5, 6], functions=[IN_FUNCS[4]], label=lambda n: 'frac=%d' % n,
         bounds={'literal': '[-]P[nD][T[nH][nM][n[.f{0..6}]S]] with 1-2 digit items (days up to 4 digits), '
                            'every digit symbolic, every present/absent combination'})
def duration_read_lexical(sx, nfrac):
    """every day/time xs:duration literal is read as the value it denotes"""
    neg = sx.choose('neg', ['', '-'])
    hasD = sx.choose('hasD', [0, 1])
    hasH = sx.choose('hasH', [0, 1])
    hasM = sx.choose('hasM', [0, 1])
    hasS = sx.choose('hasS', [0, 1]) if nfrac == 0 else 1
    if not (hasD or hasH or hasM or hasS):
        sx.outside('empty duration is not an XSD literal')
    text = neg + 'P'
    us = 0
    if hasD:
        nd = sx.choose('nD', [1, 4])
        d = sx.digits('D', nd)
        text = text + d + 'D'
        us = us + sx.digits_value(d) * 86400
    if hasH or hasM or hasS:
        text = text + 'T'
    if hasH:
        d = sx.digits('H', 2)
        text = text + d + 'H'
        us = us + sx.digits_value(d) * 3600
    if hasM:
        d = sx.digits('M', 2)
        text = text + d + 'M'
        us = us + sx.digits_value(d) * 60
    us = us * 1000000
    if hasS:
        d = sx.digits('S', 2)
        text = text + d
        us = us + sx.digits_value(d) * 1000000
        if nfrac:
            fr = sx.digits('F', nfrac)
            text = text + '.' + fr
            us = us + sx.digits_value(fr) * 10 ** (6 - nfrac)
        text = text + 'S'
    back = PROT.from_unicode(Duration, text)
    want = -us if neg else us
    return sx.eq(sx.td_microseconds(back), want)


# ---- Decimal
DEC_PARAMS_Q = [(n, e) for n in (1, 2, 4) for e in (-8, -7, -6, -3, -1, 0, 1, 3)]
DEC_PARAMS_T = [(n, e) for n in (1, 2, 3, 5, 8, 12) for e in range(-12, 13)]


@harness('C08', tier_params={'quick': DEC_PARAMS_Q, 'thorough': DEC_PARAMS_T},
         functions=[OUT_FUNCS[4], IN_FUNCS[5]], label=lambda p: 'digits=%d exp=%d' % p,
         bounds={'value': 'sign x coefficient of n symbolic digits x exponent e (concrete per job); '
                          'quick n in {1,2,4}, e in {-8..3}; thorough n <= 12, e in [-12, 12]'})
def decimal_roundtrip(sx, p):
    """text is an xs:decimal literal (no exponent) and reads back to the same number"""
    n, e = p
    v = sx.decimal('v', n, e)
    text = PROT.to_unicode(Decimal, v)
    sx.observe('text', text)
    lex = sx.matches(XS_DECIMAL, text)
    back = PROT.from_unicode(Decimal, text)
    return sx.And(lex, sx.eq(back, v))


@harness('C08', params=[(i, f) for i in (0, 1, 3) for f in (None, 0, 1, 3) if i or f],
         functions=[IN_FUNCS[5]], label=lambda p: 'int=%d frac=%s' % p,
         bounds={'literal': '[+-]?i digits[.f digits] (xs:decimal lexical space incl. "5." and ".5")'})
def decimal_read_lexical(sx, p):
    ni, nf = p
    sign = sx.choose('sign', ['', '+', '-'])
    ip = sx.digits('ip', ni) if ni else ''
    text = sign + ip
    scale = 0
    mant = sx.digits_value(ip) if ni else 0
    if nf is not None:
        text = text + '.'
        if nf:
            fr = sx.digits('fr', nf)
            text = text + fr
            mant = mant * 10 ** nf + sx.digits_value(fr)
            scale = nf
    back = PROT.from_unicode(Decimal, text)
    want = -mant if sign == '-' else mant
    # back * 10**scale == want
    return sx.eq(back * (10 ** scale) if not sx.symbolic else _scaled(back, scale), want)


def _scaled(d, scale):
    from symx.core import SInt
    return SInt(d.value_scaled(-scale))

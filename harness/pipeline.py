"""Shared scenario runner: drives the real request pipeline (ServerBase and WsgiApplication, real
JsonDocument / XmlDocument / Soap11 / HttpRpc, real lxml and json) under a *fault schedule* chosen
by the engine: which kind of request arrives, which pipeline stage fails and with what kind of
exception.  Every run records the event trace seen by listeners at application, service, method,
protocol and transport level, the start_response calls, the body chunks and any escaping exception.
The property-specific harnesses (C14, C13, C10, C09) judge that record with their own oracles.

All data here is concrete (the wire parsers are C code); what the engine varies is the schedule.
"""
import json as _json

from spyne import Application, Service, rpc, ComplexModel, EventManager
from spyne.model.primitive import Integer, Unicode
from spyne.model.complex import Iterable, Array
from spyne.model.fault import Fault
from spyne.protocol.json import JsonDocument, JsonP
from spyne.protocol.xml import XmlDocument
from spyne.protocol.soap import Soap11
from spyne.protocol.http import HttpRpc
from spyne.server import ServerBase
from spyne.server.wsgi import WsgiApplication
from spyne.context import MethodContext

TRACE = []
BEHAVE = {}


class Boom(Exception):
    pass


def _listener(tag, event):
    def h(ctx, *a, **k):
        TRACE.append('%s:%s' % (tag, event))
        plan = BEHAVE.get('raise_in')
        if plan and plan[0] == event and plan[1] == tag:
            BEHAVE['raise_in'] = None
            if plan[2] == 'fault':
                raise Fault('Client.Listener', 'listener says no')
            raise Boom('listener secret')
    h.__name__ = 'h_%s_%s' % (tag, event)
    return h


METHOD_EVENTS = ['method_call', 'method_return_object', 'method_exception_object', 'method_return_document',
                 'method_exception_document', 'method_return_string', 'method_exception_string']
APP_EVENTS = ['method_context_created', 'method_context_closed'] + METHOD_EVENTS
PROT_EVENTS = ['before_deserialize', 'after_deserialize', 'before_serialize', 'after_serialize']
WSGI_EVENTS = ['wsgi_call', 'wsgi_return', 'wsgi_exception', 'wsgi_close']


class Unserializable(object):
    pass


class Detail(ComplexModel):
    __namespace__ = 'tns'
    a = Integer


def _work(ctx, a, s):
    TRACE.append('fn:work')
    k = BEHAVE.get('fn')
    hv = BEHAVE.get('headers')
    if hv is not None and hasattr(ctx.transport, 'resp_headers'):
        ctx.transport.resp_headers['Set-Cookie'] = hv       # user code adds response headers: one value or several
    if k == 'fault':
        raise Fault(BEHAVE.get('code', 'Client.Custom.Sub'), BEHAVE.get('msg', u'custom méssage'),
                    detail=BEHAVE.get('detail'))
    if k == 'exc':
        raise Boom('function secret 4711')
    if k == 'unserializable':
        return Unserializable()
    return (a or 0) + 1


def build(proto):
    """one application per protocol pair, listeners at every level; 'A' and 'B' are two app-level
    listeners registered in that order, 'A' is registered twice."""
    method_mgr = EventManager(None)
    for ev in METHOD_EVENTS:
        method_mgr.add_listener(ev, _listener('meth', ev))

    class BaseSvc(Service):
        pass

    for ev in METHOD_EVENTS:
        BaseSvc.event_manager.add_listener(ev, _listener('svc', ev))

    # the method-level manager is attached with each of the four documented keyword spellings, one per protocol pair
    spelling = {'json': {'_evmgr': method_mgr}, 'xml': {'_event_manager': method_mgr}, 'soap11': {'_event_managers': [method_mgr]},
                'http-json': {'_evmgrs': [method_mgr]}}.get(proto, {'_evmgr': method_mgr})

    class AuditSvc(Service):     # a second base with listeners of its own for the same events
        pass

    for ev in METHOD_EVENTS:
        AuditSvc.event_manager.add_listener(ev, _listener('svcB', ev))

    class Svc(BaseSvc, AuditSvc):          # inherits the service-level listeners of both bases
        @rpc(Integer, Unicode, _returns=Integer, **spelling)
        def work(ctx, a, s):
            return _work(ctx, a, s)

        # http-json: `small` is given the very same list object as `work` (users share such lists between methods)
        @rpc(Integer(ge=0, le=9), _returns=Integer, **(spelling if proto == 'http-json' else {}))
        def small(ctx, a):
            TRACE.append('fn:small')
            return a

    class Sibling(BaseSvc):      # a sibling service: its own listeners must never fire for Svc's calls
        @rpc(_returns=Integer)
        def other(ctx):
            TRACE.append('fn:other')
            return 0

    for ev in METHOD_EVENTS:
        Sibling.event_manager.add_listener(ev, _listener('svc2', ev))

    inp, outp = {
        'json': (JsonDocument(validator='soft'), JsonDocument()),
        'xml': (XmlDocument(validator='soft'), XmlDocument()),
        'soap11': (Soap11(validator='soft'), Soap11()),
        'http-json': (HttpRpc(validator='soft'), JsonDocument()),
        'http-soap11': (HttpRpc(validator='soft'), Soap11()),
        'soap11-json': (Soap11(validator='soft'), JsonDocument()),
        'json-jsonp': (JsonDocument(validator='soft'), JsonP('cb')),
    }[proto]
    app = Application([Svc, Sibling], 'tns', in_protocol=inp, out_protocol=outp)
    for ev in APP_EVENTS:
        a, b = _listener('appA', ev), _listener('appB', ev)
        app.event_manager.add_listener(ev, a)
        app.event_manager.add_listener(ev, b)
        app.event_manager.add_listener(ev, a)        # registered twice: must run once
    for ev in PROT_EVENTS:
        inp.event_manager.add_listener(ev, _listener('inprot', ev))
        if outp is not inp:
            outp.event_manager.add_listener(ev, _listener('outprot', ev))
    return app


APPS = {}


def get_app(proto):
    if proto not in APPS:
        APPS[proto] = build(proto)
    return APPS[proto]


SOAP_ENV = 'http://schemas.xmlsoap.org/soap/envelope/'


def in_of(proto):
    return {'http-json': 'http', 'http-soap11': 'http', 'soap11-json': 'soap11', 'json-jsonp': 'json'}.get(proto, proto)


def out_of(proto):
    return {'http-json': 'json', 'http-soap11': 'soap11', 'soap11-json': 'json', 'json-jsonp': 'jsonp'}.get(proto, proto)


def request_bytes(proto, kind):
    """(body bytes, extra wsgi env) for the request kinds"""
    if kind == 'unknown_charset':
        body, env = request_bytes(proto, 'valid')
        env['CONTENT_TYPE'] = env.get('CONTENT_TYPE', 'text/plain').split(';')[0] + '; charset=klingon-8'
        return body, env
    env = {}
    proto = in_of(proto)
    if proto == 'soap11':
        env['CONTENT_TYPE'] = 'text/xml'
    if proto == 'json':
        body = {'valid': b'{"work": {"a": 5, "s": "x"}}', 'malformed': b'{"work": {"a": 5, ',
                'empty': b'', 'wrong_root': b'[1, 2]', 'unknown_method': b'{"nope": {"a": 5}}',
                'invalid_arg': b'{"small": {"a": 77}}', 'wrong_kind': b'{"work": {"a": "abc", "s": 5}}',
                'bad_utf8': b'{"work": {"a": 5, "s": "\xff\xfe"}}',
                # documents that parse but are no request envelope
                'json_two_keys': b'{"work": {"a": 5, "s": "x"}, "small": {"a": 1}}', 'json_one_item_list': b'["work"]',
                'json_scalar': b'5', 'json_string': b'"w"', 'json_null': b'null', 'json_nested_list': b'[["work"]]'}[kind]
        if kind == 'bad_utf8':
            env['CONTENT_TYPE'] = 'application/json; charset=utf-8'
    elif proto == 'xml':
        body = {'valid': b'<work xmlns="tns"><a>5</a><s>x</s></work>', 'malformed': b'<work xmlns="tns"><a>5</a',
                'empty': b'', 'wrong_root': b'<!-- c -->', 'unknown_method': b'<nope xmlns="tns"><a>5</a></nope>',
                'invalid_arg': b'<small xmlns="tns"><a>77</a></small>',
                'wrong_kind': b'<work xmlns="tns"><a>abc</a><s>x</s></work>',
                'bad_utf8': b'<?xml version="1.0" encoding="utf-8"?><work xmlns="tns"><a>5</a><s>\xff\xfe</s></work>'}[kind]
    elif proto == 'soap11':
        def envl(inner):
            return (b'<soap:Envelope xmlns:soap="' + SOAP_ENV.encode() + b'"><soap:Body>' + inner +
                    b'</soap:Body></soap:Envelope>')
        body = {'valid': envl(b'<work xmlns="tns"><a>5</a><s>x</s></work>'),
                'malformed': envl(b'<work xmlns="tns"><a>5</a></work>')[:-9],
                'empty': b'', 'wrong_root': b'<notsoap xmlns="tns"/>',
                'unknown_method': envl(b'<nope xmlns="tns"><a>5</a></nope>'),
                'invalid_arg': envl(b'<small xmlns="tns"><a>77</a></small>'),
                'wrong_kind': envl(b'<work xmlns="tns"><a>abc</a><s>x</s></work>'),
                'bad_utf8': envl(b'<work xmlns="tns"><a>5</a><s>\xff\xfe</s></work>')}[kind]
    else:   # HttpRpc: arguments in the query string
        body = b''
        path, qs = {'valid': ('/work', 'a=5&s=x'), 'malformed': ('/work', 'a=%zz&s'), 'empty': ('/', ''),
                    'wrong_root': ('/work/', ''), 'unknown_method': ('/nope', 'a=5'),
                    'invalid_arg': ('/small', 'a=77'), 'wrong_kind': ('/work', 'a=abc&s=x'),
                    'bad_utf8': ('/work', 'a=5&s=%ff%fe')}[kind]
        env.update(PATH_INFO=path, QUERY_STRING=qs, REQUEST_METHOD='GET')
    return body, env


REQUEST_KINDS = ['valid', 'malformed', 'empty', 'wrong_root', 'unknown_method', 'invalid_arg', 'wrong_kind',
                 'bad_utf8', 'too_long', 'unknown_charset', 'json_two_keys', 'json_one_item_list', 'json_scalar', 'json_string', 'json_null',
                 'json_nested_list']
MAX_LEN = 4096
STAGE_FAILS = ['none', 'call_listener_fault', 'call_listener_exc', 'fn_fault', 'fn_fault_detail', 'fn_exc',
               'ret_listener_fault', 'ret_listener_exc', 'unserializable']
LISTENER_LEVELS = ['appA', 'svc', 'meth']


class Record(object):
    def __init__(self):
        self.trace = []
        self.escaped = None           # exception escaping the server / wsgi callable
        self.start_response = []      # (status, headers, position in body iteration)
        self.chunks = []
        self.closed_at = None         # number of chunks handed over when the context was closed
        self.out_error = None
        self.in_error = None
        self.ctx = None
        self.body = b''
        self.extra = {}


HEADER_FORMS = {'none': None, 'str': 'a=1', 'list': ['a=1', 'b=2'], 'tuple': ('a=1', 'b=2')}


def run_scenario(sx, proto, transport, user_headers=False):
    """chooses a schedule, runs it, returns (schedule dict, Record)"""
    app = get_app(proto)
    req = sx.choose('request', REQUEST_KINDS)
    stage = 'none'
    level = None
    hform = 'none'
    if req == 'valid':
        stage = sx.choose('stage', STAGE_FAILS)
        if 'listener' in stage:
            level = sx.choose('level', LISTENER_LEVELS)
        if user_headers and stage in ('none', 'fn_fault', 'fn_exc'):
            hform = sx.choose('user_headers', ['none', 'str', 'list', 'tuple'])
    if req.startswith('json_') and in_of(proto) != 'json':
        sx.outside('a JSON document that is no envelope: only for the JSON input protocol')
    sched = {'proto': proto, 'transport': transport, 'request': req, 'stage': stage, 'level': level, 'headers': hform}
    del TRACE[:]
    BEHAVE.clear()
    BEHAVE['headers'] = HEADER_FORMS[hform]
    if stage.startswith('call_listener'):
        BEHAVE['raise_in'] = ('method_call', level, 'fault' if stage.endswith('fault') else 'exc')
    elif stage.startswith('ret_listener'):
        BEHAVE['raise_in'] = ('method_return_object', level, 'fault' if stage.endswith('fault') else 'exc')
    elif stage == 'fn_fault':
        BEHAVE['fn'] = 'fault'
    elif stage == 'fn_fault_detail':
        BEHAVE.update(fn='fault', detail={'first': {'k': 'v', 'zero': 0, 'no': False}, 'second': 'w'}, code='Server.Custom')
    elif stage == 'fn_exc':
        BEHAVE['fn'] = 'exc'
    elif stage == 'unserializable':
        BEHAVE['fn'] = 'unserializable'
    if req == 'too_long':
        if transport == 'server' or in_of(proto) == 'http':
            sx.outside('the request-size limit belongs to the WSGI transport (and form bodies need werkzeug, not installed)')
        body, env = request_bytes(proto, 'valid')
        pad = b' ' * (MAX_LEN + 1 - len(body))
        body = body + pad
        if in_of(proto) == 'http':
            env['REQUEST_METHOD'] = 'POST'
            env['CONTENT_TYPE'] = 'application/x-www-form-urlencoded'
            body = b'a=5&s=' + b'x' * MAX_LEN
    else:
        body, env = request_bytes(proto, req)
    rec = Record()
    if transport == 'server':
        if in_of(proto) == 'http':
            sx.outside('HttpRpc needs an http transport')
        _run_server(app, body, env, rec)
    else:
        _run_wsgi(app, body, env, rec, chunked=(transport == 'wsgi-chunked'))
    rec.trace = list(TRACE)
    return sched, rec


def _run_server(app, body, env, rec):
    server = ServerBase(app)
    charset = None
    if 'charset=' in env.get('CONTENT_TYPE', ''):
        charset = env['CONTENT_TYPE'].split('charset=')[1]
    try:
        ictx = MethodContext(server, MethodContext.SERVER)
        ictx.in_string = [body]
        ctxs = server.generate_contexts(ictx, charset)
        ctx = ctxs[0]
        rec.ctx = ctx
        if ctx.in_error is None:
            server.get_in_object(ctx)
        if ctx.in_error is None:
            server.get_out_object(ctx)
        else:
            ctx.out_error = ctx.in_error
        try:
            server.get_out_string(ctx)
        except Exception as e:
            if ctx.out_error is not None:
                raise
            # what a transport built on ServerBase does when the response cannot be serialised (cf. WsgiApplication.handle_rpc):
            # turn the failure into a fault and ask for the out string again
            ctx.out_error = Fault('Server', 'Internal Error')
            rec.extra['retried_after'] = repr(e)
            server.get_out_string(ctx)
        rec.chunks = list(ctx.out_string)
        rec.in_error, rec.out_error = ctx.in_error, ctx.out_error
    except Exception as e:
        rec.escaped = e
        if rec.ctx is not None:
            rec.in_error, rec.out_error = rec.ctx.in_error, rec.ctx.out_error
    rec.body = b''.join(c for c in rec.chunks if isinstance(c, bytes))


def _run_wsgi(app, body, env, rec, chunked):
    import io
    w = WsgiApplication(app, chunked=chunked, max_content_length=MAX_LEN)
    for ev in WSGI_EVENTS:
        w.event_manager.add_listener(ev, _listener('wsgi', ev))
    app.event_manager.add_listener('method_context_closed', lambda ctx: rec.extra.setdefault('closed', []).append(
        len(rec.chunks)))
    environ = {'REQUEST_METHOD': 'POST', 'PATH_INFO': '/', 'QUERY_STRING': '', 'SERVER_NAME': 'localhost',
               'SERVER_PORT': '80', 'wsgi.url_scheme': 'http', 'wsgi.input': io.BytesIO(body),
               'CONTENT_LENGTH': str(len(body)), 'CONTENT_TYPE': 'text/plain'}
    environ.update(env)

    def start_response(status, headers, exc_info=None):
        rec.start_response.append((status, headers, len(rec.chunks)))
        return lambda data: None
    try:
        it = w(environ, start_response)
        rec.extra['closed_before_iteration'] = list(rec.extra.get('closed', []))
        rec.extra['iter_started_with_start_response'] = len(rec.start_response)
        for chunk in it:
            rec.chunks.append(chunk)
        if hasattr(it, 'close'):
            it.close()
    except Exception as e:
        rec.escaped = e
    finally:
        # the closed-listener is per run
        hs = app.event_manager.handlers.get('method_context_closed')
        if hs is not None:
            for h in list(hs):
                if getattr(h, '__name__', '') == '<lambda>':
                    hs.remove(h)
    rec.body = b''.join(c for c in rec.chunks if isinstance(c, bytes))


def parse_response(proto, body):
    """reference decoder of the response: ('fault', code, string, detail) | ('ok', value) | ('unparsed', body)"""
    proto = out_of(proto)
    try:
        if proto == 'jsonp':
            if not (body.startswith(b'cb(') and body.endswith(b');')):
                return ('unparsed', body, 'not a cb(...) call')
            body, proto = body[3:-2], 'json'
        if proto == 'json':
            d = _json.loads(body.decode('utf8'))
            if isinstance(d, dict) and 'faultcode' in d:
                return ('fault', d.get('faultcode'), d.get('faultstring'), d.get('detail'))
            return ('ok', d)
        from lxml import etree
        root = etree.fromstring(body)
        if proto == 'soap11':
            b = root.find('{%s}Body' % SOAP_ENV)
            root = b[0] if b is not None and len(b) else root
        if root.tag.endswith('Fault'):
            g = lambda n: (root.findtext(n) if root.find(n) is not None else root.findtext('{%s}%s' % ('tns', n)))
            code = g('faultcode')
            det = root.find('detail')
            return ('fault', code.split(':')[-1] if code else code, g('faultstring'),
                    None if det is None else etree.tostring(det))
        return ('ok', etree.tostring(root))
    except Exception as e:
        return ('unparsed', body, repr(e))

"""C16 — inheritance and polymorphism preserve the runtime class."""
from symx.api import harness
from harness.common import mk_element, run_soft, fake_ctx, XSI_NS, XSD_NS

from spyne import Application, Service, rpc, ComplexModel
from spyne.model.primitive import Integer, Unicode
from spyne.model.complex import Array
from spyne.model.fault import Fault
from spyne.protocol.json import JsonDocument
from spyne.protocol.yaml import YamlDocument
from spyne.protocol.msgpack import MessagePackDocument
from spyne.protocol.xml import XmlDocument
from spyne.protocol.soap import Soap11, Soap12
from spyne.server import ServerBase
from spyne.context import MethodContext
from spyne.interface import Interface


class Base(ComplexModel):
    __namespace__ = 'tns'
    a = Integer
    s = Unicode


class Child(Base):
    __namespace__ = 'tns'
    b = Integer


class GrandChild(Child):
    __namespace__ = 'tns'
    c = Unicode


class Container(ComplexModel):
    __namespace__ = 'tns'
    plain = Base
    cust = Base.customize(min_occurs=1)
    many = Array(Base)


CLASSES = [Base, Child, GrandChild]
FIELDS = {Base: ['a', 's'], Child: ['a', 's', 'b'], GrandChild: ['a', 's', 'b', 'c']}
RET = {}


class Svc(Service):
    @rpc(Container, _returns=Container)
    def echo(ctx, c):
        RET['got'] = c
        return RET.get('ret', c)


def mk_app(in_p, out_p):
    return Application([Svc], 'tns', in_protocol=in_p, out_protocol=out_p)


def mk_inst(sx, cls, tag):
    vals = {}
    for f in FIELDS[cls]:
        wide = getattr(sx, 'tier', 'quick') == 'thorough'
        vals[f] = sx.int('%s_%s' % (tag, f), -99 if wide else 0, 999 if wide else 9) if f in ('a', 'b') else \
            sx.text('%s_%s' % (tag, f), 2 if wide else 1, alphabet='xyz')
    return cls(**vals), vals


DICT_PROTS = {'json': JsonDocument, 'yaml': YamlDocument, 'msgpack': MessagePackDocument}
DAPPS = {}


def dict_app(pname, poly):
    if (pname, poly) not in DAPPS:
        P = DICT_PROTS[pname]
        app = mk_app(P(polymorphic=poly, ignore_wrappers=False), P(polymorphic=poly, ignore_wrappers=False))
        DAPPS[(pname, poly)] = (app, fake_ctx(app))
    return DAPPS[(pname, poly)]


def _k(pname, name):
    return name.encode('utf8') if pname == 'msgpack' else name


def _unwrap(pname, node, want_name):
    """{'ClassName': {...}} -> {...} if the wrapper key is want_name"""
    if not isinstance(node, dict) or len(node) != 1:
        return None
    (k, v), = node.items()
    if k != _k(pname, want_name):
        return None
    return v


def _fields_ok(sx, pname, body, cls, vals, as_text=False):
    if not isinstance(body, dict):
        return False
    want_keys = [_k(pname, f) for f in FIELDS[cls]]
    if list(body.keys()) != want_keys:          # ancestors' fields first, then own, nothing else
        return False
    cs = []
    for f in FIELDS[cls]:
        got = body[_k(pname, f)]
        v = vals[f]
        if pname == 'msgpack' and f in ('s', 'c'):
            v = v.encode('utf8')
        cs.append(sx.eq(got, v))
    return sx.And(*cs)


SLOTS = ['plain', 'cust', 'many']


@harness('C16', params=[(pn, poly, slot, ci) for pn in sorted(DICT_PROTS) for poly in (True, False) for slot in SLOTS
                        for ci in range(3)],
         label=lambda p: '%s polymorphic=%s slot=%s runtime=%s' % (p[0], p[1], p[2], CLASSES[p[3]].__name__),
         functions=['spyne.protocol._base.ProtocolMixin.get_polymorphic_target',
                    'spyne.protocol.dictdoc.hier.HierDictDocument._object_to_doc',
                    'spyne.protocol.dictdoc.hier.HierDictDocument._to_dict_value',
                    'spyne.protocol.dictdoc.hier.HierDictDocument._complex_to_dict',
                    'spyne.protocol.dictdoc.hier.HierDictDocument._doc_to_object'],
         bounds={'tree': 'Base <- Child <- GrandChild (depth 3, one namespace); declared slots: plain Base, customized '
                         'variant of Base, Array(Base); runtime class per slot chosen; field values symbolic'})
def dictdoc_polymorphic(sx, p):
    """polymorphic on: all fields of the runtime class, ancestors first, under a wrapper key naming it, and the
    receiver rebuilds the same class; polymorphic off: exactly the declared class's fields"""
    pname, poly, slot, ci = p
    app, ctx = dict_app(pname, poly)
    prot = app.out_protocol
    cls = CLASSES[ci]
    inst, vals = mk_inst(sx, cls, 'v')
    cont = Container(**{slot: [inst] if slot == 'many' else inst})
    doc = prot._object_to_doc(Container, cont)
    body = _unwrap(pname, doc, 'Container')
    if body is None or _k(pname, slot) not in body or any(v is not None for k, v in body.items() if k != _k(pname, slot)):
        return False
    node = body[_k(pname, slot)]
    if slot == 'many':
        if not isinstance(node, list) or len(node) != 1:
            return False
        node = node[0]
    sent_cls = cls if poly else Base
    inner = _unwrap(pname, node, sent_cls.__name__)
    if inner is None:
        return False
    ok = [_fields_ok(sx, pname, inner, sent_cls, vals)]
    # and back
    back = app.in_protocol._doc_to_object(ctx, Container, doc, None)
    got = getattr(back, slot)
    if slot == 'many':
        if not isinstance(got, list) or len(got) != 1:
            return False
        got = got[0]
    ok.append(type(got) is sent_cls)
    for f in FIELDS[sent_cls]:
        ok.append(sx.eq(getattr(got, f), vals[f]))
    return sx.And(*ok)


@harness('C16', params=[(pn, poly, ci, cj) for pn in sorted(DICT_PROTS) for poly in (True, False) for ci in range(3) for cj in range(3)],
         label=lambda p: '%s polymorphic=%s array=[%s, %s]' % (p[0], p[1], CLASSES[p[2]].__name__, CLASSES[p[3]].__name__),
         functions=['spyne.protocol._base.ProtocolMixin.get_polymorphic_target',
                    'spyne.protocol.dictdoc.hier.HierDictDocument._object_to_doc',
                    'spyne.protocol.dictdoc.hier.HierDictDocument._doc_to_object'],
         bounds={'tree': 'an Array(Base) holding two elements of independently chosen runtime classes (all 9 pairs over '
                         'Base/Child/GrandChild); field values symbolic'})
def dictdoc_mixed_array(sx, p):
    """an array of the base type holding mixed subclasses: every element travels under its own class name with all of its
    fields and comes back as an instance of its own class (polymorphic off: every element as the declared class)"""
    pname, poly, ci, cj = p
    app, ctx = dict_app(pname, poly)
    prot = app.out_protocol
    items = [mk_inst(sx, CLASSES[ci], 'v0'), mk_inst(sx, CLASSES[cj], 'v1')]
    cont = Container(many=[items[0][0], items[1][0]])
    doc = prot._object_to_doc(Container, cont)
    body = _unwrap(pname, doc, 'Container')
    if body is None or not isinstance(body.get(_k(pname, 'many')), list) or len(body[_k(pname, 'many')]) != 2:
        return False
    ok = []
    for node, (inst, vals) in zip(body[_k(pname, 'many')], items):
        sent_cls = type(inst) if poly else Base
        inner = _unwrap(pname, node, sent_cls.__name__)
        if inner is None:
            return False
        ok.append(_fields_ok(sx, pname, inner, sent_cls, vals))
    back = app.in_protocol._doc_to_object(ctx, Container, doc, None)
    if not isinstance(back.many, list) or len(back.many) != 2:
        return False
    for got, (inst, vals) in zip(back.many, items):
        sent_cls = type(inst) if poly else Base
        ok.append(type(got) is sent_cls)
        for f in FIELDS[sent_cls]:
            ok.append(sx.eq(getattr(got, f), vals[f]))
    return sx.And(*ok)


LATE = [0]


@harness('C16', params=[(pn, slot, ci) for pn in sorted(DICT_PROTS) for slot in SLOTS for ci in range(3)],
         label=lambda p: '%s slot=%s parent=%s' % (p[0], p[1], CLASSES[p[2]].__name__),
         functions=['spyne.model.complex._get_type_info', 'spyne.model.complex.ComplexModelBase.get_subclasses',
                    'spyne.protocol.dictdoc.hier.HierDictDocument._doc_to_object',
                    'spyne.protocol._base.ProtocolMixin.get_polymorphic_target'],
         bounds={'history': 'the protocol instance has already decoded and encoded a document of the declared type; then a new '
                            'class is derived from Base, Child or GrandChild and an instance of it travels in a slot declared '
                            'as Base (plain, customized, array); field values symbolic'})
def late_subclass(sx, p):
    """a class defined after the protocol was first used is a subclass like any other: it is written under its own
    name with all its fields and the receiver rebuilds it"""
    pname, slot, ci = p
    app, ctx = dict_app(pname, True)
    warm, _ = mk_inst(sx, GrandChild, 'w')
    d0 = app.out_protocol._object_to_doc(Container, Container(**{slot: [warm] if slot == 'many' else warm}))
    app.in_protocol._doc_to_object(ctx, Container, d0, None)
    LATE[0] += 1
    name = 'Late%d' % LATE[0]
    parent = CLASSES[ci]
    Late = type(name, (parent,), {'__namespace__': 'tns', 'z': Integer})
    inst, vals = mk_inst(sx, parent, 'v')
    z = sx.int('v_z', 0, 9)
    vals = dict(vals, z=z)
    inst = Late(**vals)
    doc = app.out_protocol._object_to_doc(Container, Container(**{slot: [inst] if slot == 'many' else inst}))
    body = _unwrap(pname, doc, 'Container')
    if body is None or _k(pname, slot) not in body:
        return False
    node = body[_k(pname, slot)]
    if slot == 'many':
        if not isinstance(node, list) or len(node) != 1:
            return False
        node = node[0]
    inner = _unwrap(pname, node, name)
    if inner is None or list(inner.keys()) != [_k(pname, f) for f in FIELDS[parent] + ['z']]:
        return False
    back = app.in_protocol._doc_to_object(ctx, Container, doc, None)
    got = getattr(back, slot)
    if slot == 'many':
        if not isinstance(got, list) or len(got) != 1:
            return False
        got = got[0]
    ok = [type(got) is Late]
    for f in FIELDS[parent] + ['z']:
        ok.append(sx.eq(getattr(got, f, None), vals[f]))
    return sx.And(*ok)


# ---------------------------------------------------------------- XML family: type marker resolution
XAPPS = {}


def xml_app(pname):
    if pname not in XAPPS:
        P = {'XmlDocument': XmlDocument, 'Soap11': Soap11, 'Soap12': Soap12}[pname]
        app = mk_app(P(polymorphic=True), P(polymorphic=True))
        XAPPS[pname] = (app, fake_ctx(app))
    return XAPPS[pname]


@harness('C16', params=[(pn, ci) for pn in ('XmlDocument', 'Soap11', 'Soap12') for ci in range(3)],
         label=lambda p: '%s runtime=%s' % (p[0], CLASSES[p[1]].__name__),
         functions=['spyne.protocol.xml.XmlDocument.from_element', 'spyne.protocol.xml.XmlDocument.complex_from_element',
                    'spyne.model._base.ModelBase.get_type_name_ns', 'spyne.interface._base.Interface.add_class'],
         bounds={'tree': 'as above; field texts symbolic; the type marker is the one the protocol itself would write'})
def xml_type_marker(sx, p):
    """the type marker computed for the runtime class resolves against the interface's prefix table and a
    Base-typed element carrying it deserialises to the same subclass with equal fields"""
    pname, ci = p
    app, ctx = xml_app(pname)
    prot = app.in_protocol
    cls = CLASSES[ci]
    marker = cls.get_type_name_ns(app.interface)
    if marker is None or ':' not in marker:
        return False
    prefix, name = marker.split(':', 1)
    nsmap = dict(app.interface.nsmap)
    if nsmap.get(prefix) != 'tns' or name != cls.__name__:
        return False
    vals = {}
    kids = []
    for f in FIELDS[cls]:
        vals[f] = sx.digits('v_' + f, 1) if f in ('a', 'b') else sx.text('v_' + f, 1, alphabet='xyz')
        kids.append(mk_element(sx, '{tns}' + f, text=vals[f], nsmap=nsmap))
    el = mk_element(sx, '{tns}plain', attrib={'{%s}type' % XSI_NS: marker}, children=kids, nsmap=nsmap)
    got = prot.from_element(ctx, Base, el)
    ok = [type(got) is cls]
    for f in FIELDS[cls]:
        want = sx.digits_value(vals[f]) if f in ('a', 'b') else vals[f]
        ok.append(sx.eq(getattr(got, f, None), want))
    return sx.And(*ok)


@harness('C16', params=[(pn, poly, slot, ci) for pn in ('XmlDocument', 'Soap11', 'Soap12') for poly in (True, False)
                        for slot in SLOTS for ci in range(3)],
         label=lambda p: '%s polymorphic=%s slot=%s runtime=%s' % (p[0], p[1], p[2], CLASSES[p[3]].__name__),
         functions=['spyne.protocol.xml.XmlDocument.to_parent', 'spyne.protocol.xml.XmlDocument.complex_to_parent',
                    'spyne.protocol.xml.XmlDocument.gen_members_parent', 'spyne.protocol._base.ProtocolMixin.get_polymorphic_target',
                    'spyne.protocol.soap.soap11.Soap11.serialize'],
         bounds={'run': 'concrete end-to-end: the response is serialised by the real protocol through ServerBase, parsed with '
                        'lxml, and every xsi:type QName is resolved against the in-scope namespace declarations'})
def xml_wire_polymorphic(sx, p):
    """emitted documents: with polymorphism on the element of a subclass instance carries all of its fields in
    ancestor-first order and an xsi:type that resolves in the document to that class; off: declared fields only"""
    pname, poly, slot, ci = p
    from lxml import etree
    P = {'XmlDocument': XmlDocument, 'Soap11': Soap11, 'Soap12': Soap12}[pname]
    key = ('wire', pname, poly)
    if key not in XAPPS:
        XAPPS[key] = mk_app(P(), P(polymorphic=poly))
    app = XAPPS[key]
    server = ServerBase(app)
    sent = [CLASSES[ci]] + ([CLASSES[(ci + 1) % 3]] if slot == 'many' else [])    # arrays hold mixed subclasses
    insts = []
    for k, c in enumerate(sent):
        vals = dict((f, (i + 1 + 10 * k) if f in ('a', 'b') else 'v%d%d' % (k, i)) for i, f in enumerate(FIELDS[c]))
        insts.append((c, vals, c(**vals)))
    RET['ret'] = Container(**{slot: [x[2] for x in insts] if slot == 'many' else insts[0][2]})
    body = b'<echo xmlns="tns"><c/></echo>'
    if pname != 'XmlDocument':
        env = 'http://schemas.xmlsoap.org/soap/envelope/' if pname == 'Soap11' else 'http://www.w3.org/2003/05/soap-envelope'
        body = ('<e:Envelope xmlns:e="%s"><e:Body>' % env).encode() + body + b'</e:Body></e:Envelope>'
    ctx = MethodContext(server, MethodContext.SERVER)
    ctx.in_string = [body]
    ctx, = server.generate_contexts(ctx)
    server.get_in_object(ctx)
    server.get_out_object(ctx)
    server.get_out_string(ctx)
    if ctx.out_error is not None:
        return False
    root = etree.fromstring(b''.join(ctx.out_string))
    hits = [e for e in root.iter() if isinstance(e.tag, str) and etree.QName(e).localname == ('Base' if slot == 'many' else slot)]
    if len(hits) != len(insts):
        return False
    ok = []
    for el, (cls, vals, _) in zip(hits, insts):
        sent_cls = cls if poly else Base
        ok.append([(etree.QName(c).localname, c.text) for c in el] == [(f, str(vals[f])) for f in FIELDS[sent_cls]])
        xt = el.get('{%s}type' % XSI_NS)
        if poly and cls is not Base:
            if xt is None or ':' not in xt:
                return False
            pfx, nm = xt.split(':', 1)
            ok.append(el.nsmap.get(pfx) == 'tns')        # resolves in the transmitted document
            ok.append(nm == cls.__name__)
    return sx.And(*ok)


# ---------------------------------------------------------------- bare body style: the body entry is the polymorphic value
class BareSvc(Service):
    @rpc(Base, _returns=Base, _body_style='bare')
    def echo_bare(ctx, b):
        RET['got'] = b
        return b


BAPPS = {}


@harness('C16', params=[(pn, ci) for pn in ('Soap11', 'Soap12', 'XmlDocument') for ci in range(3)],
         label=lambda p: '%s runtime=%s' % (p[0], CLASSES[p[1]].__name__),
         functions=['spyne.protocol.soap.soap11.Soap11.deserialize', 'spyne.protocol.xml.XmlDocument.deserialize',
                    'spyne.protocol.xml.XmlDocument.from_element'],
         bounds={'request': 'a bare-style method declared with Base; the body entry itself carries the xsi:type of Base, Child or '
                            'GrandChild and that class\'s fields (symbolic leaf texts)'})
def bare_body_entry_type(sx, p):
    """bare style: the type marker on the body entry itself is honoured - the function receives the subclass with
    every field"""
    pname, ci = p
    if pname not in BAPPS:
        P = {'XmlDocument': XmlDocument, 'Soap11': Soap11, 'Soap12': Soap12}[pname]
        app = Application([BareSvc], 'tns', in_protocol=P(polymorphic=True), out_protocol=P(polymorphic=True))
        BAPPS[pname] = (app, ServerBase(app))
    app, server = BAPPS[pname]
    prot = app.in_protocol
    cls = CLASSES[ci]
    # the sender's prefixes are its own business: either the ones the receiver would have chosen, or a binding in which a
    # prefix the receiver uses for something else (xs) stands for the namespace of the classes
    if sx.choose('prefixes', ['as the receiver numbers them', 'the sender\'s own']) == 'as the receiver numbers them':
        marker = cls.get_type_name_ns(app.interface)
        nsmap = dict(app.interface.nsmap)
    else:
        marker = 'xs:' + cls.get_type_name()
        nsmap = {'xs': 'tns', 'xsi': XSI_NS}
    vals, kids = {}, []
    for f in FIELDS[cls]:
        vals[f] = sx.digits('v_' + f, 1) if f in ('a', 'b') else sx.text('v_' + f, 1, alphabet='xyz')
        kids.append(mk_element(sx, '{tns}' + f, text=vals[f], nsmap=nsmap))
    el = mk_element(sx, '{tns}echo_bare', attrib={'{%s}type' % XSI_NS: marker}, children=kids, nsmap=nsmap)
    RET.clear()
    if sx.symbolic:
        ctx = MethodContext(server, MethodContext.SERVER)
        ctx.in_document = el
        ctx.in_body_doc = el
        ctx.in_header_doc = None
        ctx.method_request_string = el.tag
        ctx, = prot.generate_method_contexts(ctx)
        prot.deserialize(ctx, prot.REQUEST)
        got = ctx.in_object         # bare: the message object is the argument
    else:
        from lxml import etree
        body = etree.tostring(el)
        if pname != 'XmlDocument':
            env = 'http://schemas.xmlsoap.org/soap/envelope/' if pname == 'Soap11' else 'http://www.w3.org/2003/05/soap-envelope'
            body = ('<e:Envelope xmlns:e="%s"><e:Body>' % env).encode() + body + b'</e:Body></e:Envelope>'
        ctx = MethodContext(server, MethodContext.SERVER)
        ctx.in_string = [body]
        ctx, = server.generate_contexts(ctx)
        server.get_in_object(ctx)
        if ctx.in_error is not None:
            return False
        server.get_out_object(ctx)
        got = RET.get('got')
    ok = [type(got) is cls]
    for f in FIELDS[cls]:
        want = sx.digits_value(vals[f]) if f in ('a', 'b') else vals[f]
        ok.append(sx.eq(getattr(got, f, None), want))
    return sx.And(*ok)


# ---------------------------------------------------------------- registration order: a subclass met before its base
class Animal(ComplexModel):
    __namespace__ = 'tns'
    a = Integer


class Cat(Animal):
    __namespace__ = 'tns'
    c = Unicode


class Dog(Animal):
    __namespace__ = 'tns'
    d = Unicode


class Puppy(Dog):
    __namespace__ = 'tns'
    e = Unicode


ANIMALS = [Animal, Cat, Dog, Puppy]
AFIELDS = {Animal: ['a'], Cat: ['a', 'c'], Dog: ['a', 'd'], Puppy: ['a', 'd', 'e']}


class CatFirstSvc(Service):
    # the interface meets the subclass Cat first; Animal is only reached as its parent, Dog and Puppy through Animal
    @rpc(Cat, _returns=Cat)
    def first_cat(ctx, c):
        return c

    @rpc(Animal, _returns=Animal, _body_style='bare')
    def echo_animal(ctx, b):
        RET['got'] = b
        return b


AAPPS = {}


@harness('C16', params=[(pn, ci) for pn in ('Soap11', 'Soap12', 'XmlDocument') for ci in range(4)],
         label=lambda p: '%s runtime=%s' % (p[0], ANIMALS[p[1]].__name__),
         functions=['spyne.interface._base.Interface.add_class', 'spyne.protocol.xml.XmlDocument.from_element'],
         bounds={'universe': 'Animal <- Cat, Animal <- Dog <- Puppy; the first method of the service is declared with Cat, a later one '
                             'with Animal', 'request': 'the body entry carries the xsi:type of each of the four classes and its fields'})
def subclass_met_before_base(sx, p):
    """every subclass of a declared class can be named by a type marker, whichever member of the family the interface met
    first: siblings of an already registered subclass (and their subclasses) included"""
    pname, ci = p
    if pname not in AAPPS:
        P = {'XmlDocument': XmlDocument, 'Soap11': Soap11, 'Soap12': Soap12}[pname]
        app = Application([CatFirstSvc], 'tns', in_protocol=P(polymorphic=True), out_protocol=P(polymorphic=True))
        AAPPS[pname] = (app, ServerBase(app))
    app, server = AAPPS[pname]
    prot = app.in_protocol
    cls = ANIMALS[ci]
    marker = cls.get_type_name_ns(app.interface)
    nsmap = dict(app.interface.nsmap)
    vals, kids = {}, []
    for f in AFIELDS[cls]:
        vals[f] = sx.digits('v_' + f, 1) if f == 'a' else sx.text('v_' + f, 1, alphabet='xyz')
        kids.append(mk_element(sx, '{tns}' + f, text=vals[f], nsmap=nsmap))
    el = mk_element(sx, '{tns}echo_animal', attrib={'{%s}type' % XSI_NS: marker}, children=kids, nsmap=nsmap)
    RET.clear()
    if sx.symbolic:
        ctx = MethodContext(server, MethodContext.SERVER)
        ctx.in_document = el
        ctx.in_body_doc = el
        ctx.in_header_doc = None
        ctx.method_request_string = el.tag
        ctx, = prot.generate_method_contexts(ctx)
        prot.deserialize(ctx, prot.REQUEST)
        got = ctx.in_object
    else:
        from lxml import etree
        body = etree.tostring(el)
        if pname != 'XmlDocument':
            env = 'http://schemas.xmlsoap.org/soap/envelope/' if pname == 'Soap11' else 'http://www.w3.org/2003/05/soap-envelope'
            body = ('<e:Envelope xmlns:e="%s"><e:Body>' % env).encode() + body + b'</e:Body></e:Envelope>'
        ctx = MethodContext(server, MethodContext.SERVER)
        ctx.in_string = [body]
        ctx, = server.generate_contexts(ctx)
        server.get_in_object(ctx)
        if ctx.in_error is not None:
            return False
        server.get_out_object(ctx)
        got = RET.get('got')
    ok = [type(got) is cls]
    for f in AFIELDS[cls]:
        want = sx.digits_value(vals[f]) if f == 'a' else vals[f]
        ok.append(sx.eq(getattr(got, f, None), want))
    return sx.And(*ok)


# ---------------------------------------------------------------- prefix allocation: one inductive step
@harness('C16', params=[0, 1, 2, 3], label=lambda n: 'entries=%d' % n,
         functions=['spyne.interface._base.Interface.get_namespace_prefix'],
         bounds={'state': 'prefix table with n <= 3 auto-allocated entries s<k> (k symbolic 0..9, pairwise distinct) plus '
                          'the tns entry, arbitrary counter 0..9, one new namespace'})
def prefix_allocation_step(sx, n):
    """from any table in which prefixes and namespaces are in bijection, asking for the prefix of a new namespace
    yields a fresh prefix and keeps the bijection; asking for a known namespace returns its prefix unchanged"""
    app, _ = xml_app('XmlDocument')
    iface = Interface.__new__(Interface)
    ks = [sx.digits('k%d' % i, 1) for i in range(n)]
    for i in range(n):
        for j in range(i):
            sx.assume(sx.Not(sx.eq(ks[i], ks[j])))
    pairs = [('tns', 'tns')] + [('s' + ks[i], 'urn:ns%d' % i) for i in range(n)]
    iface.nsmap = sx.mkdict(pairs)
    iface.prefmap = sx.mkdict([(ns, p) for p, ns in pairs])
    counter = sx.int('counter', 0, 9)
    setattr(iface, '_Interface__ns_counter', counter)
    known = sx.choose('ask', ['new', 'known']) if n else 'new'
    if known == 'known':
        got = iface.get_namespace_prefix('urn:ns0')
        return sx.And(sx.eq(got, 's' + ks[0]), len(iface.nsmap) == n + 1, len(iface.prefmap) == n + 1)
    got = iface.get_namespace_prefix('urn:new')
    ok = [len(iface.nsmap) == n + 2, len(iface.prefmap) == n + 2, sx.eq(iface.prefmap['urn:new'], got),
          sx.eq(iface.nsmap[got], 'urn:new'), sx.Not(sx.eq(got, 'tns'))]
    for i in range(n):
        ok.append(sx.Not(sx.eq(got, 's' + ks[i])))
        ok.append(sx.eq(iface.prefmap['urn:ns%d' % i], 's' + ks[i]))
    return sx.And(*ok)


# ---------------------------------------------------------------- type markers in members of a holder from another namespace
class FarHolder(ComplexModel):
    __namespace__ = 'urn:far'
    one = Base
    many = Array(Base)


class FarSvc(Service):
    @rpc(_returns=FarHolder)
    def far(ctx):
        return RET['ret']


FAPPS = {}


@harness('C16', params=[(pn, ci, fill) for pn in ('XmlDocument', 'Soap11', 'Soap12') for ci in range(3) for fill in ('all fields', 'no fields')],
         label=lambda p: '%s runtime=%s %s' % (p[0], CLASSES[p[1]].__name__, p[2]),
         functions=['spyne.protocol.xml.XmlDocument.serialize', 'spyne.protocol.xml.XmlDocument.gen_members_parent'],
         bounds={'document': 'a holder class from another namespace with a Base member and an Array(Base) member holding an instance of '
                             'Base, Child or GrandChild whose fields are all set or all None (an element without children)'})
def xml_marker_scope(sx, p):
    """every xsi:type written into a response resolves, in the transmitted document, to the namespace of the class - also
    when the element that carries it has no children and sits in a member of a class from another namespace"""
    from lxml import etree
    pname, ci, fill = p
    P = {'XmlDocument': XmlDocument, 'Soap11': Soap11, 'Soap12': Soap12}[pname]
    if pname not in FAPPS:
        FAPPS[pname] = Application([FarSvc], 'tns', in_protocol=P(), out_protocol=P(polymorphic=True))
    app = FAPPS[pname]
    server = ServerBase(app)
    cls = CLASSES[ci]
    mk = (lambda: cls(**dict((f, 1 if f in ('a', 'b') else 'v') for f in FIELDS[cls]))) if fill == 'all fields' else (lambda: cls())
    RET['ret'] = FarHolder(one=mk(), many=[mk(), mk()])
    body = b'<far xmlns="tns"/>'
    if pname != 'XmlDocument':
        env = 'http://schemas.xmlsoap.org/soap/envelope/' if pname == 'Soap11' else 'http://www.w3.org/2003/05/soap-envelope'
        body = ('<e:Envelope xmlns:e="%s"><e:Body>' % env).encode() + body + b'</e:Body></e:Envelope>'
    ctx = MethodContext(server, MethodContext.SERVER)
    ctx.in_string = [body]
    ctx, = server.generate_contexts(ctx)
    server.get_in_object(ctx)
    server.get_out_object(ctx)
    server.get_out_string(ctx)
    if ctx.out_error is not None:
        return False
    root = etree.fromstring(b''.join(ctx.out_string))
    marked = [e for e in root.iter() if isinstance(e.tag, str) and e.get('{%s}type' % XSI_NS)]
    if cls is not Base and len(marked) != 3:
        return False
    for e in marked:
        pfx, _, nm = e.get('{%s}type' % XSI_NS).partition(':')
        if e.nsmap.get(pfx) != 'tns' or nm != cls.__name__:
            return False
    return True


# ---------------------------------------------------------------- the class namespace is used by no element at all
class MBase(ComplexModel):
    __namespace__ = 'urn:models'
    a = Integer


class MSub(MBase):
    __namespace__ = 'urn:models'
    b = Integer


class ModelsSvc(Service):
    @rpc(_returns=MBase)
    def get(ctx):
        return RET['ret']

    @rpc(_returns=Array(MBase))
    def get_all(ctx):
        return [RET['ret'], RET['ret']]


MAPPS = {}


@harness('C16', params=[(pn, m, fill) for pn in ('XmlDocument', 'Soap11', 'Soap12') for m in ('get', 'get_all') for fill in ('all fields', 'no fields')],
         label=lambda p: '%s %s %s' % p,
         functions=['spyne.protocol.xml.XmlDocument.serialize', 'spyne.protocol.soap.soap11.Soap11.serialize'],
         bounds={'document': 'methods of a service in namespace tns declared with a class of namespace urn:models, returning an instance '
                             'of its subclass with all fields set or none (then no element of the response lives in urn:models)'})
def xml_marker_foreign_namespace(sx, p):
    """the prefix of a type marker stays declared in the transmitted document even when the marker is its only use"""
    from lxml import etree
    pname, meth, fill = p
    P = {'XmlDocument': XmlDocument, 'Soap11': Soap11, 'Soap12': Soap12}[pname]
    if pname not in MAPPS:
        MAPPS[pname] = Application([ModelsSvc], 'tns', in_protocol=P(), out_protocol=P(polymorphic=True))
    app = MAPPS[pname]
    server = ServerBase(app)
    RET['ret'] = MSub(a=1, b=2) if fill == 'all fields' else MSub()
    body = ('<%s xmlns="tns"/>' % meth).encode()
    if pname != 'XmlDocument':
        env = 'http://schemas.xmlsoap.org/soap/envelope/' if pname == 'Soap11' else 'http://www.w3.org/2003/05/soap-envelope'
        body = ('<e:Envelope xmlns:e="%s"><e:Body>' % env).encode() + body + b'</e:Body></e:Envelope>'
    ctx = MethodContext(server, MethodContext.SERVER)
    ctx.in_string = [body]
    ctx, = server.generate_contexts(ctx)
    server.get_in_object(ctx)
    server.get_out_object(ctx)
    server.get_out_string(ctx)
    if ctx.out_error is not None:
        return False
    root = etree.fromstring(b''.join(ctx.out_string))
    marked = [e for e in root.iter() if isinstance(e.tag, str) and e.get('{%s}type' % XSI_NS)]
    if len(marked) != (1 if meth == 'get' else 2):
        return False
    for e in marked:
        pfx, _, nm = e.get('{%s}type' % XSI_NS).partition(':')
        if e.nsmap.get(pfx) != 'urn:models' or nm != 'MSub':
            return False
    return True


# ---------------------------------------------------------------- SOAP headers declared with a base class
class HeaderSvc(Service):
    __in_header__ = Base
    __out_header__ = Base

    @rpc(_returns=Integer)
    def ping(ctx):
        RET['in_header'] = ctx.in_header
        ctx.out_header = RET['out_header']
        return 1


HAPPS = {}


@harness('C16', params=[(pn, ci) for pn in ('Soap11', 'Soap12') for ci in range(3)],
         label=lambda p: '%s header=%s' % (p[0], CLASSES[p[1]].__name__),
         functions=['spyne.protocol.soap.soap11.Soap11.serialize', 'spyne.protocol.soap.soap11.Soap11.deserialize'],
         bounds={'headers': 'a service whose in and out headers are declared with Base; the request header carries the type marker of '
                            'Base, Child or GrandChild and its fields, the function answers with a header object of the same class '
                            '(enumeration of the three classes; concrete field values)'})
def soap_header_polymorphic(sx, p):
    """a header object of a subclass travels like a body value: under the element name of the declared class, marked with
    its own type, all fields intact - in both directions"""
    from lxml import etree
    pname, ci = p
    P = {'Soap11': Soap11, 'Soap12': Soap12}[pname]
    if pname not in HAPPS:
        HAPPS[pname] = Application([HeaderSvc], 'tns', in_protocol=P(polymorphic=True), out_protocol=P(polymorphic=True))
    app = HAPPS[pname]
    server = ServerBase(app)
    cls = CLASSES[ci]
    vals = dict((f, 7 if f in ('a', 'b') else u'v' + f) for f in FIELDS[cls])
    RET.clear()
    RET['out_header'] = cls(**vals)
    env = 'http://schemas.xmlsoap.org/soap/envelope/' if pname == 'Soap11' else 'http://www.w3.org/2003/05/soap-envelope'
    fields = ''.join('<t:%s>%s</t:%s>' % (f, vals[f], f) for f in FIELDS[cls])
    body = ('<e:Envelope xmlns:e="%s" xmlns:t="tns" xmlns:xsi="%s"><e:Header><t:Base xsi:type="t:%s">%s</t:Base></e:Header>'
            '<e:Body><t:ping/></e:Body></e:Envelope>' % (env, XSI_NS, cls.__name__, fields)).encode()
    ctx = MethodContext(server, MethodContext.SERVER)
    ctx.in_string = [body]
    ctx, = server.generate_contexts(ctx)
    server.get_in_object(ctx)
    if ctx.in_error is not None:
        return False
    server.get_out_object(ctx)
    server.get_out_string(ctx)
    if ctx.out_error is not None:
        return False
    got = RET.get('in_header')
    if isinstance(got, (list, tuple)):
        got = got[0] if len(got) == 1 else None
    if type(got) is not cls or any(getattr(got, f, None) != vals[f] for f in FIELDS[cls]):
        return False
    root = etree.fromstring(b''.join(ctx.out_string))
    hdr = root.find('{%s}Header' % env)
    if hdr is None or len(hdr) != 1:
        return False
    el = hdr[0]
    if el.tag != '{tns}Base':
        return False            # the element of a header is named after the declared class
    xt = el.get('{%s}type' % XSI_NS)
    if cls is not Base:
        if xt is None:
            return False
        pfx, _, nm = xt.partition(':')
        if el.nsmap.get(pfx) != 'tns' or nm != cls.__name__:
            return False
    return all(el.findtext('{tns}%s' % f) == str(vals[f]) for f in FIELDS[cls])

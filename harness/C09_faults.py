"""C09 — fault classification (HTTP status), the exception funnel, SOAP 1.2 fault codes."""
from symx.api import harness
from harness.common import fake_ctx

from spyne import Application, Service, rpc, ComplexModel
from spyne.model.primitive import Integer, Unicode
from spyne.model.fault import Fault
from spyne.error import (RequestTooLongError, ResourceNotFoundError, RequestNotAllowed,
    InvalidCredentialsError, ValidationError, InternalError, ArgumentError, RespawnError,
    ResourceAlreadyExistsError, InvalidInputError)
from spyne.protocol import ProtocolBase
from spyne.protocol.http import HttpRpc
from spyne.protocol.json import JsonDocument
from spyne.protocol.xml import XmlDocument
from spyne.protocol.soap import Soap11, Soap12
from spyne.server import ServerBase
from spyne.context import MethodContext


class MyNotFound(ResourceNotFoundError):
    pass


class MyTooLong(RequestTooLongError):
    pass


class MyDenied(InvalidCredentialsError):
    pass


class MyNotAllowed(RequestNotAllowed):
    pass


class MyFault(Fault):
    pass


DEDICATED = {RequestTooLongError: '413', ResourceNotFoundError: '404', RequestNotAllowed: '405',
             InvalidCredentialsError: '401'}
FAULTS = [Fault, MyFault, ValidationError, InternalError, ArgumentError, ResourceAlreadyExistsError,
          InvalidInputError, RequestTooLongError, MyTooLong, ResourceNotFoundError, RespawnError, MyNotFound,
          RequestNotAllowed, MyNotAllowed, InvalidCredentialsError, MyDenied]
GENERIC = {'ProtocolBase': ProtocolBase(), 'HttpRpc': HttpRpc(), 'JsonDocument': JsonDocument(),
           'XmlDocument': XmlDocument()}
SOAP = {'Soap11': Soap11(), 'Soap12': Soap12()}


def _mk(cls):
    try:
        return cls()
    except TypeError:
        return cls('x')


@harness('C09', params=[(c, pn) for c in FAULTS for pn in sorted(GENERIC) + sorted(SOAP)],
         label=lambda p: '%s %s' % (p[0].__name__, p[1]),
         functions=['spyne.protocol._outbase.OutProtocolBase.fault_to_http_response_code',
                    'spyne.protocol.soap.soap11.Soap11.fault_to_http_response_code'],
         bounds={'faultcode': 'any string of 0..9 printable characters; 16 fault classes incl. subclasses'})
def http_status(sx, p):
    """413/404/405/401 for the dedicated errors (and their subclasses), 400 iff the code is 'Client' or
    starts with 'Client.', 500 otherwise; always 500 for SOAP"""
    cls, pname = p
    prot = GENERIC.get(pname) or SOAP[pname]
    f = _mk(cls)
    n = sx.choose('len', [0, 5, 6, 7, 9] if sx.tier == 'quick' else list(range(0, 13)))
    code = sx.text('code', n) if n else ''
    f.faultcode = code
    status = prot.fault_to_http_response_code(f)
    sx.observe('status', status)
    got = status[:3]
    if pname in SOAP:
        return got == '500'
    for base, want in DEDICATED.items():
        if issubclass(cls, base):
            return got == want
    is_client = sx.Or(sx.eq(code, 'Client'), code[:7] == 'Client.' if n >= 7 else False)
    return sx.And(sx.Implies(is_client, got == '400'), sx.Implies(sx.Not(is_client), got == '500'))


# ---------------------------------------------------------------- funnel
BEHAVE = {}


class FunnelService(Service):
    @rpc(Integer, _returns=Integer)
    def work(ctx, a):
        k = BEHAVE.get('kind')
        BEHAVE['entered'] = BEHAVE.get('entered', 0) + 1
        if k == 'fault':
            raise BEHAVE['cls'](*BEHAVE['args'])
        if k == 'exc':
            raise BEHAVE['cls'](BEHAVE['secret'])
        return BEHAVE.get('ret', 42)


JAPP = Application([FunnelService], 'tns', in_protocol=JsonDocument(), out_protocol=JsonDocument())
JSERVER = ServerBase(JAPP)


def _ctx_for(server, body):
    ctx = MethodContext(server, MethodContext.SERVER)
    ctx.in_string = [body]
    ctx, = server.generate_contexts(ctx)
    server.get_in_object(ctx)
    return ctx


def _has_secret(sx, doc, secret):
    """does any string inside the out document share content with the secret?  In symbolic mode the
    secret consists of fresh character variables, so a leak is any symbolic string in the document."""
    stack = [doc]
    while stack:
        x = stack.pop()
        if isinstance(x, dict):
            stack.extend(x.keys()); stack.extend(x.values())
        elif isinstance(x, (list, tuple)):
            stack.extend(x)
        elif sx.symbolic:
            from symx.core import Sym
            if isinstance(x, Sym):
                return True
        elif isinstance(x, str) and secret and secret in x:
            return True
    return False


EXC_CLASSES = [RuntimeError, ValueError, KeyError, ZeroDivisionError, AssertionError]


BUILTIN_ARGS = ['plain', ('users', 42), ('only',), 5, {'k': 'v'}, ['a', 'b']]


@harness('C09', params=['fault', 'fault+detail', 'exception', 'return', 'builtin'],
         functions=['spyne.application.Application.process_request', 'spyne.server._base.ServerBase.get_out_object',
                    'spyne.protocol.dictdoc.hier.HierDictDocument.serialize',
                    'spyne.protocol.dictdoc.hier.HierDictDocument._fault_to_doc', 'spyne.model.fault.Fault.to_dict'],
         bounds={'fault': 'code = Client|Server + optional dotted sub-code of 3 symbolic chars; message of 4 '
                          'symbolic chars; detail dict with symbolic leaf', 'exception': '5 non-Fault classes, '
                          'secret text of 6 symbolic chars'})
def funnel(sx, kind):
    """a raised Fault reaches the out document with the same code/message/detail and the return value
    is not serialised; any other exception becomes Server/'Internal Error' with no part of its text"""
    BEHAVE.clear()
    ctx = _ctx_for(JSERVER, b'{"work": {"a": 5}}')
    if ctx.in_error is not None:
        return False
    secret = None
    if kind.startswith('fault'):
        first = sx.choose('first', ['Client', 'Server'])
        code = first
        if sx.choose('sub', [0, 1]):
            code = first + '.' + sx.text('subcode', 3, alphabet='ABab.')
        msg = sx.text('msg', 4)
        detail = {'why': sx.text('detail', 2), 'n': {'deep': 1}} if kind == 'fault+detail' else None
        BEHAVE.update(kind='fault', cls=Fault, args=(code, msg, '', detail))
    elif kind == 'builtin':
        # built-in fault classes constructed the way user code does, with various kinds of identifying objects
        fcls = sx.choose('fault_class', [ResourceNotFoundError, ResourceAlreadyExistsError, ValidationError,
                                         InvalidCredentialsError, ArgumentError, RequestTooLongError])
        takes_object = fcls in (ResourceNotFoundError, ResourceAlreadyExistsError, ValidationError)
        arg = sx.choose('fault_arg', BUILTIN_ARGS if takes_object else BUILTIN_ARGS[:1])
        params = None
        if fcls is InvalidCredentialsError and sx.choose('with_params', [1, 0]):
            # the 401 error takes an optional dict that becomes the fault detail
            params = {'realm': 'users', 'hint': {'retry': 0}}
        BEHAVE.update(kind='fault', cls=fcls, args=(arg,) if params is None else (arg, params))
    elif kind == 'exception':
        secret = sx.text('secret', 6, alphabet='sekrit0123')
        BEHAVE.update(kind='exc', cls=sx.choose('exc_class', EXC_CLASSES), secret=secret)
    JSERVER.get_out_object(ctx)
    entered = BEHAVE.get('entered', 0)
    if kind == 'return':
        return sx.And(entered == 1, ctx.out_error is None, list(ctx.out_object) == [42])
    err = ctx.out_error
    if err is None:
        return False
    JAPP.out_protocol.serialize(ctx, JAPP.out_protocol.RESPONSE)
    doc = ctx.out_document
    if not isinstance(doc, (list, tuple)) or len(doc) != 1 or not isinstance(doc[0], dict):
        return False
    d = doc[0]
    if kind == 'builtin':
        # the client sees the class's own code (never the generic Server fault) and its message names the object
        want_code = fcls.CODE
        shown = arg if isinstance(arg, str) else None
        ok = [entered == 1, err.faultcode == want_code, d.get('faultcode') == want_code,
              isinstance(d.get('faultstring'), str)]
        if fcls in (ResourceNotFoundError, ResourceAlreadyExistsError) :
            ok.append(repr(arg) in d.get('faultstring', '') or str(arg) in d.get('faultstring', ''))
        if params is not None:
            ok.append(d.get('detail') == params)
        return sx.And(*ok)
    if kind.startswith('fault'):
        ok = [entered == 1, sx.eq(err.faultcode, code), sx.eq(err.faultstring, msg),
              sx.eq(d.get('faultcode'), code), sx.eq(d.get('faultstring'), msg), 'work' not in str(list(d.keys()))]
        if detail is not None:
            dd = d.get('detail')
            ok.append(isinstance(dd, dict) and sx.eq(dd.get('why'), detail['why']) and dd.get('n') == {'deep': 1})
        else:
            ok.append(d.get('detail') is None)
        return sx.And(*ok)
    return sx.And(entered == 1, sx.eq(err.faultcode, 'Server'), sx.eq(err.faultstring, 'Internal Error'),
                  err.detail is None, sx.eq(d.get('faultcode'), 'Server'),
                  sx.eq(d.get('faultstring'), 'Internal Error'), not _has_secret(sx, doc, secret))


LAPPS = {}


def _lapp(form):
    if form not in LAPPS:
        app = Application([FunnelService], 'tns', in_protocol=JsonDocument(),
                          out_protocol=JsonDocument(complex_as={'list': list, 'tuple': tuple}[form]))
        LAPPS[form] = (app, ServerBase(app))
    return LAPPS[form]


@harness('C09', params=[(form, kind) for form in ('list', 'tuple') for kind in ('fault', 'fault+detail', 'exception')],
         label=lambda p: 'complex_as=%s %s' % p,
         functions=['spyne.protocol.dictdoc.hier.HierDictDocument._fault_to_doc', 'spyne.model.fault.Fault.to_list',
                    'spyne.protocol.dictdoc.hier.HierDictDocument.serialize'],
         bounds={'fault': 'as funnel (symbolic code, message, detail leaf); output protocol in positional form '
                          '(complex_as=list / tuple); native replay parses the real JSON body'})
def funnel_positional(sx, p):
    """positional (list / tuple) document form: the fault is sent as one document [code, message, actor, detail]
    from which the client recovers exactly the raised code, message and detail"""
    form, kind = p
    app, server = _lapp(form)
    BEHAVE.clear()
    ctx = _ctx_for(server, b'{"work": {"a": 5}}')
    if ctx.in_error is not None:
        return False
    secret = None
    if kind.startswith('fault'):
        code = sx.choose('first', ['Client', 'Server'])
        if sx.choose('sub', [0, 1]):
            code = code + '.' + sx.text('subcode', 3, alphabet='ABab.')
        msg = sx.text('msg', 4)
        detail = {'why': sx.text('detail', 2)} if kind == 'fault+detail' else None
        BEHAVE.update(kind='fault', cls=Fault, args=(code, msg, '', detail))
    else:
        secret = sx.text('secret', 6, alphabet='sekrit0123')
        BEHAVE.update(kind='exc', cls=sx.choose('exc_class', EXC_CLASSES), secret=secret)
        code, msg, detail = 'Server', 'Internal Error', None
    server.get_out_object(ctx)
    if ctx.out_error is None:
        return False
    app.out_protocol.serialize(ctx, app.out_protocol.RESPONSE)
    doc = ctx.out_document
    if not sx.symbolic:
        import json
        app.out_protocol.create_out_string(ctx)
        try:
            doc = [json.loads(b''.join(ctx.out_string).decode('utf8'))]
        except ValueError:
            return False
    if not isinstance(doc, (list, tuple)) or len(doc) != 1:
        return False
    f = doc[0]
    if not isinstance(f, (list, tuple)) or len(f) != 4:
        return False
    ok = [sx.eq(f[0], code), sx.eq(f[1], msg)]
    if detail is not None:
        ok.append(isinstance(f[3], dict) and sx.eq(f[3].get('why'), detail['why']))
    else:
        ok.append(f[3] in ('', None))
    if secret is not None:
        ok.append(not _has_secret(sx, doc, secret))
    return sx.And(*ok)


# ---------------------------------------------------------------- soap 1.2 codes
S12 = Soap12()


@harness('C09', params=[0, 1, 2], label=lambda n: 'subcodes=%d' % n,
         functions=['spyne.protocol.soap.soap12.Soap12.gen_fault_codes'],
         bounds={'faultcode': 'first segment of 6 symbolic letters + n <= 2 sub-codes of 2 symbolic chars (no dots)'})
def soap12_codes(sx, n):
    """Client -> Sender, Server -> Receiver, sub-codes preserved in order; anything else is refused"""
    first = sx.text('first', 6, alphabet='ClientSrvX')
    subs = [sx.text('sub%d' % i, 2, alphabet='abAB1') for i in range(n)]
    code = first
    for s in subs:
        code = code + '.' + s
    try:
        value, rest = S12.gen_fault_codes(code)
    except TypeError:
        return sx.And(sx.Not(sx.eq(first, 'Client')), sx.Not(sx.eq(first, 'Server')))
    rest = list(rest)
    ok = [len(rest) == n]
    ok += [sx.eq(a, b) for a, b in zip(rest, subs)]
    ok.append(sx.Or(sx.And(sx.eq(first, 'Client'), sx.eq(value, '%s:Sender' % S12.soap_env)),
                    sx.And(sx.eq(first, 'Server'), sx.eq(value, '%s:Receiver' % S12.soap_env))))
    return sx.And(*ok)

"""C05 — soft validation accepts exactly the values that satisfy the declared constraints,
and gives the same verdict over the XML text path, the dict-document native path and the
HttpRpc flat path (all compared against one reference semantics of the facets)."""
import datetime
from symx.api import harness
from harness.common import mk_element, run_soft, is_client_validation_fault, int_literal, fake_ctx, XSI_NS

from spyne import Application, Service, rpc, ComplexModel
from spyne.model.primitive import (Integer, UnsignedInteger, Integer8, Integer16, Integer32, Integer64,
    UnsignedInteger8, UnsignedInteger16, UnsignedInteger32, UnsignedInteger64, Boolean, Unicode,
    Date, Time, DateTime, Decimal, Mandatory as M)
from spyne.model.complex import Array, XmlAttribute
from spyne.protocol.xml import XmlDocument
from spyne.protocol.json import JsonDocument
from spyne.protocol.http import HttpRpc
from spyne.protocol.soap import Soap11
from spyne.error import ValidationError


class _Svc(Service):
    @rpc(Integer, _returns=Integer)
    def f(ctx, a):
        return a


APP = Application([_Svc], 'tns', in_protocol=XmlDocument(validator='soft'), out_protocol=XmlDocument())
CTX = fake_ctx(APP)
XML = XmlDocument(app=APP, validator='soft')
SOAP = Soap11(app=APP, validator='soft')
JSON = JsonDocument(app=APP, validator='soft')
HTTP = HttpRpc(app=APP, validator='soft')
from spyne.protocol.msgpack import MessagePackDocument
MSGPACK = MessagePackDocument(app=APP, validator='soft')

INF = None
INT_GRID = [
    ('byte', Integer8, -2 ** 7, 2 ** 7 - 1), ('short', Integer16, -2 ** 15, 2 ** 15 - 1),
    ('int', Integer32, -2 ** 31, 2 ** 31 - 1), ('long', Integer64, -2 ** 63, 2 ** 63 - 1),
    ('unsignedByte', UnsignedInteger8, 0, 2 ** 8 - 1), ('unsignedShort', UnsignedInteger16, 0, 2 ** 16 - 1),
    ('unsignedInt', UnsignedInteger32, 0, 2 ** 32 - 1), ('unsignedLong', UnsignedInteger64, 0, 2 ** 64 - 1),
    ('integer', Integer, INF, INF), ('nonNegativeInteger', UnsignedInteger, 0, INF),
    ('Integer(ge=-5,le=17)', Integer(ge=-5, le=17), -5, 17),
    ('Integer(gt=-5,lt=17)', Integer(gt=-5, lt=17), -4, 16),
    ('Integer(ge=3)', Integer(ge=3), 3, INF), ('Integer(lt=0)', Integer(lt=0), INF, -1),
    ('Integer32(ge=100,le=1000)', Integer32(ge=100, le=1000), 100, 1000),
    ('UnsignedInteger8(le=200)', UnsignedInteger8(le=200), 0, 200),
    ('Integer8(gt=-100)', Integer8(gt=-100), -99, 127),
]
FUNCS = ['spyne.protocol.xml.XmlDocument.from_element', 'spyne.protocol.xml.XmlDocument.base_from_element',
         'spyne.protocol.xml.XmlDocument.unicode_from_element',
         'spyne.protocol._inbase.InProtocolBase.integer_from_bytes',
         'spyne.model.primitive.number.Decimal.validate_native',
         'spyne.model.primitive.number.Decimal.validate_string',
         'spyne.model.primitive.number.Integer.validate_native',
         'spyne.model._base.SimpleModel.validate_native']


def _in_range(sx, v, lo, hi):
    cs = []
    if lo is not None:
        cs.append(v >= lo)
    if hi is not None:
        cs.append(v <= hi)
    return sx.And(*cs) if cs else True


def _digits_of(lo, hi):
    m = max(abs(lo) if lo is not None else 0, abs(hi) if hi is not None else 0)
    return len(str(m)) if m else 6


@harness('C05', params=INT_GRID, functions=FUNCS, label=lambda p: p[0],
         bounds={'text': '1..digits(type)+2 characters over the alphabet 0-9 + - . e x _ (every string)'})
def xml_int_text(sx, p):
    """XML text path: accepted <=> xs:integer literal within the declared bounds"""
    name, T, lo, hi = p
    maxlen = min(_digits_of(lo, hi) + 2, 22)
    lens = [1, 2, 3, maxlen - 1, maxlen] if sx.tier == 'quick' else list(range(1, maxlen + 1))
    L = sx.choose('len', sorted(set(x for x in lens if 1 <= x <= maxlen)))
    text = sx.text('t', L, alphabet='0123456789+-.ex_')
    elt = mk_element(sx, '{tns}v', text=text)
    out = run_soft(lambda: XML.from_element(CTX, T, elt))
    lit, want = int_literal(sx, text)
    ok = sx.And(lit, _in_range(sx, want, lo, hi))
    sx.observe('accepted', out.accepted)
    if out.accepted:
        return sx.And(ok, sx.is_int(out.value), sx.eq(out.value, want))
    return sx.And(sx.Not(ok), is_client_validation_fault(out.fault))


@harness('C05', params=INT_GRID, functions=['spyne.protocol.dictdoc.hier.HierDictDocument._from_dict_value',
                                            'spyne.protocol.dictdoc.hier.HierDictDocument.validate',
                                            'spyne.protocol.json.JsonDocument._ret_number'] + FUNCS[4:],
         label=lambda p: p[0], bounds={'value': 'every JSON integer (unbounded)'})
def json_int_native(sx, p):
    """dict-document native path: a JSON number is accepted <=> it is within the declared bounds"""
    name, T, lo, hi = p
    v = sx.int('v')
    out = run_soft(lambda: JSON._from_dict_value(CTX, 'k', T, v, JSON.validator))
    ok = _in_range(sx, v, lo, hi)
    sx.observe('accepted', out.accepted)
    if out.accepted:
        return sx.And(ok, sx.eq(out.value, v))
    return sx.And(sx.Not(ok), is_client_validation_fault(out.fault))


class _HttpHolder(ComplexModel):
    __namespace__ = 'tns'
    _type_info = [(g[0].replace('(', '_').replace(')', '').replace('=', '').replace(',', '_').replace('-', 'm'), g[1])
                  for g in INT_GRID]


_HTTP_MEMBERS = list(_HttpHolder.get_flat_type_info(_HttpHolder).items())


@harness('C05', params=INT_GRID, label=lambda p: p[0],
         functions=['spyne.protocol.dictdoc.simple.SimpleDictDocument._to_native_values'] + FUNCS[3:],
         bounds={'text': 'as xml_int_text'})
def http_int_text(sx, p):
    """HttpRpc flat path: same verdict as the XML text path"""
    name, T, lo, hi = p
    key, member_type = _HTTP_MEMBERS[[g[0] for g in INT_GRID].index(name)]
    maxlen = min(_digits_of(lo, hi) + 2, 22)
    lens = [1, 2, maxlen - 1, maxlen] if sx.tier == 'quick' else list(range(1, maxlen + 1))
    L = sx.choose('len', sorted(set(x for x in lens if 1 <= x <= maxlen)))
    text = sx.text('t', L, alphabet='0123456789+-.ex')

    class _Member(object):
        type = member_type
    out = run_soft(lambda: HTTP._to_native_values(_HttpHolder, _Member, key, key, [text], None, HTTP.validator))
    lit, want = int_literal(sx, text)
    ok = sx.And(lit, _in_range(sx, want, lo, hi))
    sx.observe('accepted', out.accepted)
    if out.accepted:
        return sx.And(ok, len(out.value) == 1, sx.eq(out.value[0], want))
    return sx.And(sx.Not(ok), is_client_validation_fault(out.fault))


# ---------------------------------------------------------------- strings
STR_GRID = [
    ('Unicode(min_len=2,max_len=4)', Unicode(min_len=2, max_len=4), 2, 4, None, None),
    ('Unicode(max_len=3)', Unicode(max_len=3), 0, 3, None, None),
    ('Unicode(3)', Unicode(3), 0, 3, None, None),
    ('Unicode(min_len=1)', Unicode(min_len=1), 1, None, None, None),
    ('Unicode(pattern=[a-c]+[0-9])', Unicode(pattern='[a-c]+[0-9]'), 0, None, '[a-c]+[0-9]', None),
    ('Unicode(pattern=ab|abc)', Unicode(pattern='ab|abc'), 0, None, 'ab|abc', None),
    ('Unicode(values=[ab,cd,abc])', Unicode(values=['ab', 'cd', 'abc']), 0, None, None, ['ab', 'cd', 'abc']),
    ('Unicode(max_len=3,pattern=a*)', Unicode(max_len=3, pattern='a*'), 0, 3, 'a*', None),
]


def _str_ok(sx, text, lo, hi, pattern, values):
    cs = []
    n = sx.length(text)
    cs.append(n >= lo)
    if hi is not None:
        cs.append(n <= hi)
    if pattern is not None:
        cs.append(sx.matches(pattern, text))
    if values is not None:
        cs.append(sx.Or(*[sx.eq(text, v) for v in values]))
    return sx.And(*cs)


@harness('C05', params=STR_GRID, label=lambda p: p[0],
         functions=['spyne.protocol.xml.XmlDocument.unicode_from_element',
                    'spyne.model.primitive.string.Unicode.validate_string',
                    'spyne.model.primitive.string.Unicode.validate_native',
                    'spyne.model.primitive._base.re_match_with_span',
                    'spyne.model._base.SimpleModel.validate_native'],
         bounds={'text': '0..6 characters over the alphabet a b c d 0 9 (every string; the empty one as an empty element)'})
def xml_str_text(sx, p):
    name, T, lo, hi, pattern, values = p
    L = sx.choose('len', [0, 1, 2, 3, 4, 5] if sx.tier == 'quick' else [0, 1, 2, 3, 4, 5, 6])
    text = sx.text('t', L, alphabet='abcd09') if L else u''
    elt = mk_element(sx, '{tns}v', text=text if L else None)       # an empty element carries the empty string
    out = run_soft(lambda: XML.from_element(CTX, T, elt))
    ok = _str_ok(sx, text, lo, hi, pattern, values)
    sx.observe('accepted', out.accepted)
    if out.accepted:
        return sx.And(ok, sx.eq(out.value, text))
    return sx.And(sx.Not(ok), is_client_validation_fault(out.fault))


@harness('C05', params=STR_GRID, label=lambda p: p[0],
         functions=['spyne.protocol.dictdoc.hier.HierDictDocument._from_dict_value',
                    'spyne.model.primitive.string.Unicode.validate_string',
                    'spyne.model.primitive.string.Unicode.validate_native'],
         bounds={'text': '0..6 characters over the alphabet a b c d 0 9 (every string, including the empty one)'})
def json_str_native(sx, p):
    name, T, lo, hi, pattern, values = p
    L = sx.choose('len', [0, 1, 2, 3, 4, 5] if sx.tier == 'quick' else [0, 1, 2, 3, 4, 5, 6])
    text = sx.text('t', L, alphabet='abcd09') if L else u''
    out = run_soft(lambda: JSON._from_dict_value(CTX, 'k', T, text, JSON.validator))
    ok = _str_ok(sx, text, lo, hi, pattern, values)
    sx.observe('accepted', out.accepted)
    if out.accepted:
        return sx.And(ok, sx.eq(out.value, text))
    return sx.And(sx.Not(ok), is_client_validation_fault(out.fault))


@harness('C05', params=['xml', 'http'], functions=['spyne.protocol._inbase.InProtocolBase.boolean_from_bytes',
                                                   'spyne.protocol.xml.XmlDocument.base_from_element'],
         bounds={'text': '1..5 characters over the alphabet t r u e f a l s 0 1 T x (every string)'})
def bool_text(sx, fam):
    """a boolean is true / false / 1 / 0: any other text is refused, not read as false (letter case is not judged: accepting
    TRUE is lenient, reading it as anything but true would be wrong)"""
    L = sx.choose('len', [1, 2, 4, 5])
    text = sx.text('t', L, alphabet='truefals01Tx')
    if fam == 'xml':
        elt = mk_element(sx, '{tns}v', text=text)
        out = run_soft(lambda: XML.from_element(CTX, Boolean, elt))
    else:
        out = run_soft(lambda: HTTP.from_unicode(Boolean, text))
    low = text.lower()
    is_true = sx.Or(sx.eq(low, 'true'), sx.eq(low, '1'))
    is_false = sx.Or(sx.eq(low, 'false'), sx.eq(low, '0'))
    strict = sx.Or(sx.eq(text, 'true'), sx.eq(text, '1'), sx.eq(text, 'false'), sx.eq(text, '0'))
    sx.observe('accepted', out.accepted)
    if out.accepted:
        return sx.And(sx.Or(is_true, is_false), sx.is_bool(out.value), sx.eq(out.value, is_true))
    return sx.And(sx.Not(strict), is_client_validation_fault(out.fault))


@harness('C05', params=[(g, form) for g in STR_GRID for form in ('str', 'bin')], label=lambda p: '%s as msgpack %s' % (p[0][0], p[1]),
         functions=['spyne.protocol.dictdoc.hier.HierDictDocument._from_dict_value',
                    'spyne.model.primitive.string.Unicode.validate_string'],
         bounds={'text': '0..5 characters over the alphabet a b c d 0 9 (every string) followed by 0..2 e-acutes, handed over as msgpack str or as msgpack bin '
                         '(the form spyne itself writes)'})
def msgpack_str_native(sx, p):
    """MessagePack: the string facets decide the same way whether the text arrives as str or as bin"""
    (name, T, lo, hi, pattern, values), form = p
    L = sx.choose('len', [0, 1, 2, 3, 4, 5])
    # (a tail of e-acutes - one character, two bytes each - so that byte count and character count differ; the non-ASCII
    # characters are concrete because the engine's UTF-8 decoder takes symbolic bytes below 0x80 only)
    text = (sx.text('t', L, alphabet='abcd09') if L else u'') + sx.choose('tail', [u'', u'\xe9', u'\xe9\xe9'])
    wire = text if form == 'str' else text.encode('utf8')
    out = run_soft(lambda: MSGPACK._from_dict_value(CTX, 'k', T, wire, MSGPACK.validator))
    ok = _str_ok(sx, text, lo, hi, pattern, values)
    sx.observe('accepted', out.accepted)
    if out.accepted:
        return sx.And(ok, sx.eq(out.value, text))
    return sx.And(sx.Not(ok), is_client_validation_fault(out.fault))


class _ReqAttr(ComplexModel):
    __namespace__ = 'tns'
    rid = XmlAttribute(Integer(min_occurs=1))
    opt = XmlAttribute(Integer)
    name = Unicode


@harness('C05', functions=['spyne.protocol.xml.XmlDocument.complex_from_element'],
         bounds={'document': 'an object with a mandatory XML attribute (min_occurs=1), an optional one and an element; each attribute present '
                             '(symbolic one-digit value) or absent'})
def xml_required_attribute(sx, p):
    """occurrence constraints count attributes too: the object is accepted iff the mandatory attribute is there, and its
    value arrives"""
    has_rid = sx.choose('mandatory attribute', ['present', 'absent']) == 'present'
    has_opt = sx.choose('optional attribute', ['present', 'absent']) == 'present'
    rid, opt = sx.digits('rid', 1), sx.digits('opt', 1)
    attrib = {}
    if has_rid:
        attrib['rid'] = rid
    if has_opt:
        attrib['opt'] = opt
    elt = mk_element(sx, '{tns}t', attrib=attrib, children=[mk_element(sx, '{tns}name', text='x')])
    out = run_soft(lambda: XML.from_element(CTX, _ReqAttr, elt))
    sx.observe('accepted', out.accepted)
    if out.accepted:
        return sx.And(has_rid, sx.eq(out.value.rid, sx.digits_value(rid)),
                      sx.eq(out.value.opt, sx.digits_value(opt)) if has_opt else out.value.opt is None)
    return (not has_rid) and is_client_validation_fault(out.fault)


# ---------------------------------------------------------------- xsi:nil / nullability
NIL_GRID = [('nillable', Integer, True), ('Mandatory', M.Integer, False),
            ('Unicode(nillable=False)', Unicode(nillable=False), False),
            # a declared default is what a nil element is replaced by - when nil is admissible at all
            ("Integer(nillable=False, default=1)", Integer(nillable=False, default=1), False),
            ("Unicode(nillable=False, default='7')", Unicode(nillable=False, default='7'), False),
            ("Integer(default=3)", Integer(default=3), True)]


@harness('C05', params=NIL_GRID, label=lambda p: p[0],
         functions=['spyne.protocol.xml.XmlDocument.from_element'],
         bounds={'xsi:nil': 'attribute absent, or any string of 1..5 printable characters'})
def xml_nil(sx, p):
    """an element is nil iff xsi:nil is 'true' or '1'; a nil element is accepted iff the type is nillable"""
    name, T, nillable = p
    L = sx.choose('len', [0, 1, 4, 5, 2, 3])
    attrib = {}
    nil = False
    if L:
        a = sx.text('nil', L)
        attrib['{%s}nil' % XSI_NS] = a
        nil = sx.Or(sx.eq(a, 'true'), sx.eq(a, '1'))
    elt = mk_element(sx, '{tns}v', text='7', attrib=attrib)
    out = run_soft(lambda: XML.from_element(CTX, T, elt))
    sx.observe('accepted', out.accepted)
    if out.accepted:
        default = T.Attributes.default
        is_nil_value = out.value is None if default is None else sx.eq(out.value, default)
        want_val = sx.Or(sx.And(nil, is_nil_value), sx.And(sx.Not(nil), sx.eq(out.value, '7' if issubclass(T, Unicode) else 7)))
        return sx.And(want_val, sx.Or(sx.Not(nil), nillable))
    return sx.And(nil, not nillable, is_client_validation_fault(out.fault))


from spyne.model.primitive import Time as _Time0


class PosInnerN(ComplexModel):
    __namespace__ = 'tns'
    v = Integer


NULL_GRID = [('Integer', Integer, True), ('Mandatory.Integer', M.Integer, False),
             ('Unicode(nillable=False)', Unicode(nillable=False), False),
             ("Unicode(values=['a','b'])", Unicode(values=['a', 'b']), True),
             ('Integer(values=[1,2])', Integer(values=[1, 2]), True),
             ("Unicode(values=['a'],nillable=False)", Unicode(values=['a'], nillable=False), False),
             ('Integer(ge=1,le=9)', Integer(ge=1, le=9), True), ("Unicode(pattern='a+',min_len=1)", Unicode(pattern='a+', min_len=1), True),
             ('complex', PosInnerN, True), ('complex(nillable=False)', PosInnerN.customize(nillable=False), False),
             ('Date', Date, True), ('DateTime', DateTime, True), ('Time', _Time0, True), ('Date(nillable=False)', Date(nillable=False), False)]
NULL_HOLDERS = {}


def _null_holder(i):
    if i not in NULL_HOLDERS:
        class Holder(ComplexModel):
            __namespace__ = 'tns'
            __type_name__ = 'NullHolder%d' % i
            _type_info = [('x', NULL_GRID[i][1]), ('xs', Array(NULL_GRID[i][1])), ('y', Unicode)]
        NULL_HOLDERS[i] = Holder
    return NULL_HOLDERS[i]


@harness('C05', params=[(i, pos, fam) for i in range(len(NULL_GRID)) for pos in ('member', 'array item') for fam in ('json', 'xml')],
         label=lambda p: '%s %s %s' % (NULL_GRID[p[0]][0], p[1], p[2]),
         functions=['spyne.protocol.dictdoc.hier.HierDictDocument._from_dict_value', 'spyne.protocol.xml.XmlDocument.from_element',
                    'spyne.model._base.SimpleModel.validate_native', 'spyne.model._base.ModelBase.validate_native'],
         bounds={'value': 'an explicit null (JSON null / xsi:nil="true") for a member or an array item of every listed type; '
                          'the types combine nillability with enumerations, ranges, patterns and lengths'})
def explicit_null(sx, p):
    """an explicit null is accepted iff the type is nillable - whatever other constraints (values, range, pattern,
    length) the type declares - and the two protocol families agree"""
    i, pos, fam = p
    name, T, nillable = NULL_GRID[i]
    H = _null_holder(i)
    if fam == 'json':
        doc = {'y': 's'}
        if pos == 'member':
            doc['x'] = None
        else:
            doc['xs'] = [None]
        out = run_soft(lambda: JSON._doc_to_object(CTX, H, doc, JSON.validator))
    else:
        item = list(H._type_info['xs']._type_info.keys())[0]
        nil = mk_element(sx, '{tns}x' if pos == 'member' else '{tns}%s' % item, attrib={'{%s}nil' % XSI_NS: 'true'})
        kids = [nil] if pos == 'member' else [mk_element(sx, '{tns}xs', children=[nil])]
        kids.append(mk_element(sx, '{tns}y', text='s'))
        out = run_soft(lambda: XML.from_element(CTX, H, mk_element(sx, '{tns}%s' % H.get_type_name(), children=kids)))
    sx.observe('accepted', out.accepted)
    if out.accepted:
        got = out.value.x if pos == 'member' else out.value.xs
        return nillable and (got is None if pos == 'member' else got == [None])
    return (not nillable) and is_client_validation_fault(out.fault)


# ---------------------------------------------------------------- occurrence counts
def _occ_class(mn, mx):
    class Holder(ComplexModel):
        __namespace__ = 'tns'
        __type_name__ = 'Holder_%s_%s' % (mn, mx)
        _type_info = [('x', Integer(min_occurs=mn, max_occurs=mx)), ('y', Unicode)]
    return Holder


def _occ_class_inherited(mn, mx):
    class Base(ComplexModel):
        __namespace__ = 'tns'
        __type_name__ = 'HBase_%s_%s' % (mn, mx)
        _type_info = [('x', Integer(min_occurs=mn, max_occurs=mx))]

    class Holder(Base):
        __namespace__ = 'tns'
        __type_name__ = 'HSub_%s_%s' % (mn, mx)
        _type_info = [('y', Unicode)]
    return Holder


OCC_GRID = [(mn, mx, w) for w in ('own', 'inherited') for mn in (0, 1, 2) for mx in (1, 2, 3, 'unbounded')
            if mx == 'unbounded' or mx >= mn]
OCC_CLASSES = {g: (_occ_class if g[2] == 'own' else _occ_class_inherited)(*g[:2]) for g in OCC_GRID}


@harness('C05', params=OCC_GRID, label=lambda p: 'min=%s max=%s member=%s' % p,
         functions=['spyne.protocol.xml.XmlDocument.complex_from_element'],
         bounds={'count': '0..max+2 occurrences (5 for unbounded), exhaustively; values symbolic; the member declared on the class itself or inherited from a parent class'})
def xml_occurs(sx, p):
    """XML: a member occurring n times is accepted <=> min_occurs <= n <= max_occurs"""
    mn, mx, _where = p
    cls = OCC_CLASSES[p]
    top = 5 if mx == 'unbounded' else mx + 2
    n = sx.choose('n', list(range(0, top + 1)))
    vals = [sx.int('v%d' % i, -99, 99) for i in range(n)]
    kids = [mk_element(sx, '{tns}x', text=sx.render(v)) for v in vals]
    kids.append(mk_element(sx, '{tns}y', text='s'))
    elt = mk_element(sx, '{tns}Holder', children=kids)
    out = run_soft(lambda: XML.from_element(CTX, cls, elt))
    ok = n >= mn and (mx == 'unbounded' or n <= mx)
    sx.observe('accepted', out.accepted)
    if out.accepted:
        got = out.value.x
        if n == 0:
            same = got is None or got == []
        elif mx != 'unbounded' and mx == 1:
            same = sx.eq(got, vals[-1])
        else:
            same = sx.And(len(got) == n, *[sx.eq(a, b) for a, b in zip(got, vals)])
        return sx.And(ok, same)
    return sx.And(not ok, is_client_validation_fault(out.fault))


@harness('C05', params=OCC_GRID, label=lambda p: 'min=%s max=%s member=%s' % p,
         functions=['spyne.protocol.dictdoc.hier.HierDictDocument._doc_to_object',
                    'spyne.protocol.dictdoc._base.DictDocument._check_freq_dict'],
         bounds={'count': '0..max+2 items (5 for unbounded), exhaustively; values symbolic'})
def json_occurs(sx, p):
    """JSON: a member given n values is accepted <=> min_occurs <= n <= max_occurs"""
    mn, mx, _where = p
    cls = OCC_CLASSES[p]
    top = 5 if mx == 'unbounded' else mx + 2
    n = sx.choose('n', list(range(0, top + 1)))
    vals = [sx.int('v%d' % i, -99, 99) for i in range(n)]
    single = (mx != 'unbounded' and mx == 1)
    doc = {'y': 's'}
    if single:
        if n > 1:
            sx.outside('a scalar member cannot be repeated in a JSON object')
        if n == 1:
            doc['x'] = vals[0]
    elif n > 0 or sx.choose('empty_list', [0, 1]):
        doc['x'] = list(vals)
    out = run_soft(lambda: JSON._doc_to_object(CTX, cls, doc, JSON.validator))
    ok = n >= mn and (mx == 'unbounded' or n <= mx)
    sx.observe('accepted', out.accepted)
    if out.accepted:
        got = out.value.x
        if n == 0:
            same = got is None or got == []
        elif single:
            same = sx.eq(got, vals[0])
        else:
            same = sx.And(len(got) == n, *[sx.eq(a, b) for a, b in zip(got, vals)])
        return sx.And(ok, same)
    return sx.And(not ok, is_client_validation_fault(out.fault))


# ---------------------------------------------------------------- dates with ranges
DATE_T = Date(ge=datetime.date(2000, 2, 28), le=datetime.date(2001, 3, 1))


@harness('C05', functions=['spyne.model.primitive.datetime.Date.validate_native',
                           'spyne.protocol.xml.XmlDocument.base_from_element',
                           'spyne.protocol._inbase.InProtocolBase.date_from_unicode_iso'],
         bounds={'text': 'YYYY-MM-DD with symbolic digits, year 1999..2002'})
def xml_date_range(sx, p):
    """Date(ge, le): accepted <=> a real calendar date inside the closed range"""
    y, m, d = sx.digits('Y', 4), sx.digits('M', 2), sx.digits('D', 2)
    Y, Mo, D = sx.digits_value(y), sx.digits_value(m), sx.digits_value(d)
    sx.assume(sx.And(Y >= 1999, Y <= 2002, Mo >= 1, Mo <= 12, D >= 1, D <= 28))
    elt = mk_element(sx, '{tns}v', text=y + '-' + m + '-' + d)
    out = run_soft(lambda: XML.from_element(CTX, DATE_T, elt))
    key = Y * 10000 + Mo * 100 + D
    ok = sx.And(key >= 20000228, key <= 20010301)
    sx.observe('accepted', out.accepted)
    if out.accepted:
        return sx.And(ok, sx.eq(out.value.year, Y), sx.eq(out.value.month, Mo), sx.eq(out.value.day, D))
    return sx.And(sx.Not(ok), is_client_validation_fault(out.fault))


# ---------------------------------------------------------------- date-times with ranges and offsets
import pytz
DT_T = DateTime(ge=datetime.datetime(2020, 1, 1, 0, 0, tzinfo=pytz.utc), le=datetime.datetime(2020, 1, 1, 12, 0, tzinfo=pytz.utc))


@harness('C05', params=['xml', 'json'],
         functions=['spyne.model.primitive.datetime.DateTime.validate_native',
                    'spyne.protocol._inbase.InProtocolBase.datetime_from_unicode_iso'],
         bounds={'text': '2020-01-01Thh:mm:00(+|-)hh:mm with every digit of the time and of the offset symbolic (offset within '
                         '-14:00..+14:00), and the Z form'})
def datetime_range_offsets(sx, fam):
    """DateTime(ge, le): a literal is accepted <=> the *instant* it denotes lies in the closed range, whatever
    UTC offset it is written with"""
    h, mi = sx.digits('h', 2), sx.digits('mi', 2)
    H, MI = sx.digits_value(h), sx.digits_value(mi)
    sx.assume(sx.And(H <= 23, MI <= 59))
    zone = sx.choose('zone', ['offset', 'Z'])
    text = '2020-01-01T' + h + ':' + mi + ':00'
    off = 0
    if zone == 'Z':
        text = text + 'Z'
    else:
        sign = sx.choose('sign', ['+', '-'])
        oh, om = sx.digits('oh', 2), sx.digits('om', 2)
        OH, OM = sx.digits_value(oh), sx.digits_value(om)
        sx.assume(sx.And(OM <= 59, OH * 60 + OM <= 840))
        text = text + sign + oh + ':' + om
        off = (OH * 60 + OM) * (-1 if sign == '-' else 1)
    if fam == 'xml':
        out = run_soft(lambda: XML.from_element(CTX, DT_T, mk_element(sx, '{tns}v', text=text)))
    else:
        out = run_soft(lambda: JSON._from_dict_value(CTX, 'k', DT_T, text, JSON.validator))
    utc = H * 60 + MI - off          # minutes after 2020-01-01T00:00Z
    ok = sx.And(utc >= 0, utc <= 720)
    sx.observe('accepted', out.accepted)
    if out.accepted:
        return sx.And(ok, sx.eq(out.value.hour, H), sx.eq(out.value.minute, MI))
    return sx.And(sx.Not(ok), is_client_validation_fault(out.fault))


# ---------------------------------------------------------------- nesting positions
from spyne.model.complex import XmlAttribute

SMALL = UnsignedInteger8(le=200)


class PosInner(ComplexModel):
    __namespace__ = 'tns'
    _type_info = [('v', SMALL), ('att', XmlAttribute(SMALL))]


class PosOuter(ComplexModel):
    __namespace__ = 'tns'
    _type_info = [('top', SMALL), ('inner', PosInner), ('arr', Array(SMALL)), ('many', SMALL.customize(max_occurs=3)),
                  ('inner2', PosInner)]       # a second member of the same class


POSITIONS = ['top', 'nested', 'array-member', 'repeated-member', 'xml-attribute', 'second-of-a-class']


@harness('C05', params=[(pos, fam) for pos in POSITIONS for fam in ('xml', 'json')] + [(pos, 'http') for pos in ('top', 'nested', 'xml-attribute', 'second-of-a-class')],
         label=lambda p: '%s %s' % p,
         functions=['spyne.protocol.xml.XmlDocument.complex_from_element', 'spyne.protocol.xml.XmlDocument.array_from_element',
                    'spyne.protocol.dictdoc.hier.HierDictDocument._doc_to_object'],
         bounds={'value': 'text of 1..4 characters over 0-9 - x (XML) / every JSON integer (JSON) for an UnsignedInteger8(le=200) '
                          'at six nesting positions (the last: the second of two members of one class)'})
def constraint_positions(sx, p):
    """the same constraint gives the same verdict wherever the value sits: top-level member, nested field, array
    member, repeated member, XML attribute"""
    pos, fam = p
    if fam == 'xml':
        L = sx.choose('len', [1, 2, 3, 4])
        text = sx.text('t', L, alphabet='0123456789-x')
        lit, want = int_literal(sx, text)
        ok = sx.And(lit, want >= 0, want <= 200)
        e = lambda name, t=None, kids=(), att=None: mk_element(sx, '{tns}' + name, text=t, children=kids, attrib=att)
        if pos == 'top':
            kids = [e('top', text)]
        elif pos == 'nested':
            kids = [e('inner', kids=[e('v', text)])]
        elif pos == 'array-member':
            kids = [e('arr', kids=[e('unsignedByte', '7'), e('unsignedByte', text)])]
        elif pos == 'repeated-member':
            kids = [e('many', '7'), e('many', text)]
        elif pos == 'second-of-a-class':
            kids = [e('inner', kids=[e('v', '7')]), e('inner2', kids=[e('v', text)])]
        else:
            kids = [e('inner', kids=[e('v', '7')], att={'att': text})]
        out = run_soft(lambda: XML.from_element(CTX, PosOuter, e('o', kids=kids)))
    elif fam == 'http':
        L = sx.choose('len', [1, 2, 3, 4])
        text = sx.text('t', L, alphabet='0123456789-x')
        lit, want = int_literal(sx, text)
        ok = sx.And(lit, want >= 0, want <= 200)
        key = {'top': 'top', 'nested': 'inner.v', 'xml-attribute': 'inner.att', 'second-of-a-class': 'inner2.v'}[pos]
        pairs = [(key, [text])] + ([('inner.v', ['7'])] if pos == 'second-of-a-class' else [])
        out = run_soft(lambda: HTTP.simple_dict_to_object(CTX, sx.mkdict(pairs), PosOuter, HTTP.validator))
    else:
        want = sx.int('v')
        ok = sx.And(want >= 0, want <= 200)
        doc = {'top': {'top': want}, 'nested': {'inner': {'v': want}}, 'array-member': {'arr': [7, want]},
               'repeated-member': {'many': [7, want]}, 'second-of-a-class': {'inner': {'v': 7}, 'inner2': {'v': want}},
               'xml-attribute': {'inner': {'v': 7, 'att': want}}}[pos]        # outside XML an XmlAttribute member is a plain member
        out = run_soft(lambda: JSON._doc_to_object(CTX, PosOuter, doc, JSON.validator))
    sx.observe('accepted', out.accepted)
    if not out.accepted:
        return sx.And(sx.Not(ok), is_client_validation_fault(out.fault))
    o = out.value
    got = {'top': lambda: o.top, 'nested': lambda: o.inner.v, 'array-member': lambda: o.arr[1],
           'repeated-member': lambda: o.many[1], 'xml-attribute': lambda: o.inner.att,
           'second-of-a-class': lambda: o.inner2.v}[pos]()
    return sx.And(ok, sx.eq(got, want))


def attr_out_of_range(t):
    """known-finding predicate: an integer literal outside 0..200 in the XML attribute position"""
    from symx.symctx import SymCtx
    from symx.api import ConcCtx
    sx = SymCtx() if not isinstance(t, str) else ConcCtx({})
    lit, v = int_literal(sx, t)
    return sx.And(lit, sx.Or(v < 0, v > 200))


# ---------------------------------------------------------------- temporal literals: the whole text must be a literal
from spyne.model.primitive import Time as _Time, DateTime as _DateTime, Duration as _Duration, Date as _Date

TEMPORAL = {
    'Time': (_Time, 'dd:dd:dd', r'(([01][0-9]|2[0-3]):[0-5][0-9]:[0-5][0-9](\.[0-9]+)?|24:00:00(\.0+)?)(Z|[+-]((0[0-9]|1[0-3]):[0-5][0-9]|14:00))?'),
    'DateTime': (_DateTime, 'dddd-dd-ddTdd:dd:dd', r'-?([1-9][0-9]{3,}|0[0-9]{3})-(0[1-9]|1[0-2])-(0[1-9]|[12][0-9]|3[01])T(([01][0-9]|2[0-3]):[0-5][0-9]:[0-5][0-9](\.[0-9]+)?|24:00:00(\.0+)?)(Z|[+-]((0[0-9]|1[0-3]):[0-5][0-9]|14:00))?'),
    'Date': (_Date, 'dddd-dd-dd', r'-?([1-9][0-9]{3,}|0[0-9]{3})-(0[1-9]|1[0-2])-(0[1-9]|[12][0-9]|3[01])(Z|[+-]((0[0-9]|1[0-3]):[0-5][0-9]|14:00))?'),
    'Duration': (_Duration, 'PdDTdHdMdS', r'-?P((([0-9]+Y([0-9]+M)?([0-9]+D)?|([0-9]+M)([0-9]+D)?|([0-9]+D))(T(([0-9]+H)([0-9]+M)?([0-9]+(\.[0-9]+)?S)?|([0-9]+M)([0-9]+(\.[0-9]+)?S)?|([0-9]+(\.[0-9]+)?S)))?)|(T(([0-9]+H)([0-9]+M)?([0-9]+(\.[0-9]+)?S)?|([0-9]+M)([0-9]+(\.[0-9]+)?S)?|([0-9]+(\.[0-9]+)?S))))'),
}


def _tmpl_text(sx, tmpl):
    out, run, i = '', 0, 0
    for ch in tmpl + '\0':
        if ch == 'd':
            run += 1
            continue
        if run:
            out = out + sx.digits('g%d' % i, run)
            i += 1
            run = 0
        if ch != '\0':
            out = out + ch
    return out


@harness('C05', params=[(n, fam) for n in sorted(TEMPORAL) for fam in ('xml', 'json')], label=lambda p: '%s %s' % p,
         functions=['spyne.protocol._inbase.InProtocolBase.time_from_unicode', 'spyne.protocol._inbase.InProtocolBase.datetime_from_unicode_iso',
                    'spyne.protocol._inbase.InProtocolBase.date_from_unicode_iso', 'spyne.protocol._inbase.InProtocolBase.duration_from_unicode'],
         bounds={'text': 'a time / date-time / date / duration shape with every digit symbolic, followed by 0..2 arbitrary characters '
                         'over { x Z 0 : + space } - so "12:30:00xyz"-like texts and genuine suffixes (Z, fractional digits are not '
                         'in this alphabet) are inside'})
def temporal_trailing_text(sx, p):
    """a text is accepted for a temporal type only if the whole of it is a literal of that type (a literal followed by
    anything else is refused with a validation fault, in both protocol families)"""
    name, fam = p
    T, tmpl, lexical = TEMPORAL[name]
    L = sx.choose('suffix_len', [0, 1, 2])
    text = _tmpl_text(sx, tmpl) + (sx.text('suffix', L, alphabet='xZ0:+ ') if L else '')
    if fam == 'xml':
        out = run_soft(lambda: XML.from_element(CTX, T, mk_element(sx, '{tns}v', text=text)))
    else:
        out = run_soft(lambda: JSON._from_dict_value(CTX, 'k', T, text, JSON.validator))
    sx.observe('accepted', out.accepted)
    if out.accepted:
        return sx.matches(lexical, text)
    return is_client_validation_fault(out.fault)


# ---------------------------------------------------------------- a wrapped array as a mandatory member
def _arr_holder(mn):
    class Holder(ComplexModel):
        __namespace__ = 'tns'
        __type_name__ = 'ArrHolder_%d' % mn
        _type_info = [('arr', Array(Integer, min_occurs=mn)), ('y', Unicode)]
    return Holder


ARR_HOLDERS = {0: _arr_holder(0), 1: _arr_holder(1)}


@harness('C05', params=[(mn, fam) for mn in (0, 1) for fam in ('xml', 'json')], label=lambda p: 'Array(min_occurs=%d) %s' % p,
         functions=['spyne.protocol.dictdoc._base.DictDocument._check_freq_dict', 'spyne.protocol.xml.XmlDocument.complex_from_element'],
         bounds={'document': 'the wrapped array member absent, present and empty, or present with 1..2 symbolic integers'})
def wrapped_array_presence(sx, p):
    """a wrapped array member declared with min_occurs=1 must be present (an empty array is present); with min_occurs=0 it may
    be left out - the same in both protocol families"""
    mn, fam = p
    cls = ARR_HOLDERS[mn]
    shape = sx.choose('shape', ['absent', 'empty', 'one', 'two'])
    n = {'absent': 0, 'empty': 0, 'one': 1, 'two': 2}[shape]
    vals = [sx.int('v%d' % i, -99, 99) for i in range(n)]
    if fam == 'xml':
        kids = [mk_element(sx, '{tns}y', text='s')]
        if shape != 'absent':
            kids.insert(0, mk_element(sx, '{tns}arr', children=[mk_element(sx, '{tns}integer', text=sx.render(v)) for v in vals]))
        out = run_soft(lambda: XML.from_element(CTX, cls, mk_element(sx, '{tns}h', children=kids)))
    else:
        doc = {'y': 's'}
        if shape != 'absent':
            doc['arr'] = list(vals)
        out = run_soft(lambda: JSON._doc_to_object(CTX, cls, doc, JSON.validator))
    ok = shape != 'absent' or mn == 0
    sx.observe('accepted', out.accepted)
    if out.accepted:
        got = out.value.arr
        same = (got is None or got == []) if n == 0 else sx.And(len(got) == n, *[sx.eq(a, b) for a, b in zip(got, vals)])
        return sx.And(ok, same)
    return (not ok) and is_client_validation_fault(out.fault)


# ---------------------------------------------------------------- empty_is_none: the empty string is null
EIN_GRID = [('nillable', Unicode(empty_is_none=True), True), ('nillable=False', Unicode(empty_is_none=True, nillable=False), False),
            ("pattern='a+'", Unicode(empty_is_none=True, pattern='a+'), True), ('min_len=2', Unicode(empty_is_none=True, min_len=2), True),
            ("values=['a']", Unicode(empty_is_none=True, values=['a']), True),
            ('Integer(empty_is_none)', Integer(empty_is_none=True, nillable=False), False)]
EIN_HOLDERS = {}


def _ein_holder(i):
    if i not in EIN_HOLDERS:
        class Holder(ComplexModel):
            __namespace__ = 'tns'
            __type_name__ = 'EinHolder%d' % i
            _type_info = [('x', EIN_GRID[i][1]), ('y', Unicode)]
        EIN_HOLDERS[i] = Holder
    return EIN_HOLDERS[i]


@harness('C05', params=[(i, fam) for i in range(len(EIN_GRID)) for fam in ('xml', 'json', 'http')],
         label=lambda p: '%s %s' % (EIN_GRID[p[0]][0], p[1]),
         functions=['spyne.protocol.dictdoc.hier.HierDictDocument._from_dict_value', 'spyne.protocol._inbase.InProtocolBase.from_unicode',
                    'spyne.protocol.xml.XmlDocument.unicode_from_element'],
         bounds={'text': 'a member of a type with empty_is_none=True sent as the empty string or as a symbolic text of 1..2 characters '
                         'over {a b}; nillable or not, with and without other facets'})
def empty_is_none_text(sx, p):
    """with empty_is_none the empty string is null in every protocol family: accepted iff the type is nillable - whatever
    other facets it declares - and delivered as None"""
    i, fam = p
    name, T, nillable = EIN_GRID[i]
    H = _ein_holder(i)
    L = sx.choose('len', [0, 1, 2])
    text = sx.text('t', L, alphabet='ab') if L else u''
    if fam == 'xml':
        kids = [mk_element(sx, '{tns}x', text=(text if L else None)), mk_element(sx, '{tns}y', text='s')]
        out = run_soft(lambda: XML.from_element(CTX, H, mk_element(sx, '{tns}h', children=kids)))
    elif fam == 'json':
        out = run_soft(lambda: JSON._doc_to_object(CTX, H, {'x': text, 'y': 's'}, JSON.validator))
    else:
        out = run_soft(lambda: HTTP.simple_dict_to_object(CTX, sx.mkdict([('x', [text]), ('y', ['s'])]), H, HTTP.validator))
    sx.observe('accepted', out.accepted)
    if L:
        sx.outside('non-empty texts are judged by the string and integer harnesses')
    if out.accepted:
        return nillable and out.value.x is None
    return (not nillable) and is_client_validation_fault(out.fault)

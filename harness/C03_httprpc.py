"""C03 — HttpRpc flat key/value fidelity: index mapping, array order, flat round trip."""
from symx.api import harness
from harness.common import run_soft, is_client_validation_fault, fake_ctx

from spyne import Application, Service, rpc, ComplexModel
from spyne.model.primitive import Integer, Unicode
from spyne.model.complex import Array
from spyne.protocol.http import HttpRpc
from spyne.protocol.dictdoc.simple import _s2cmi, SimpleDictDocument


class Inner(ComplexModel):
    __namespace__ = 'tns'
    v = Integer
    w = Unicode


class Outer(ComplexModel):
    __namespace__ = 'tns'
    a = Integer
    b = Array(Inner)


class Outer2(ComplexModel):
    __namespace__ = 'tns'
    a = Integer
    c = Inner.customize(max_occurs='unbounded')


class _Svc(Service):
    @rpc(Outer, Outer2, _returns=Integer)
    def f(ctx, o, o2):
        return 1


APP = Application([_Svc], 'tns', in_protocol=HttpRpc(), out_protocol=HttpRpc())
CTX = fake_ctx(APP)


@harness('C03', params=[1, 2, 3, 4], label=lambda n: 'n=%d' % n, tier_params=None,
         functions=['spyne.protocol.dictdoc.simple._s2cmi'],
         bounds={'state': 'arbitrary map of n <= 4 (quick) sparse->contiguous entries satisfying the rank '
                          'invariant, arbitrary storage order, arbitrary new index (one inductive step)'})
def s2cmi_step(sx, n):
    """from any valid map, inserting any new sparse index returns its rank and keeps the invariant"""
    ks = [sx.int('k%d' % i, 0, 10 ** 6) for i in range(n)]
    nidx = sx.int('nidx', 0, 10 ** 6)
    for i in range(n):
        sx.assume(sx.Not(ks[i] == nidx))
        for j in range(i):
            sx.assume(sx.Not(ks[i] == ks[j]))

    def rank(x, keys):
        r = 0
        for k in keys:
            r = r + sx.ite(k < x, 1, 0)
        return r
    vs = [rank(ks[i], ks) for i in range(n)]        # representation invariant: value = rank of key
    m = sx.mkdict(list(zip(ks, vs)))
    r = _s2cmi(m, nidx)
    allk = ks + [nidx]
    ok = [sx.eq(r, rank(nidx, ks)), sx.eq(m[nidx], r), len(m) == n + 1]
    for i in range(n):
        ok.append(sx.eq(m[ks[i]], rank(ks[i], allk)))
    return sx.And(*ok)


def _idx_text(sx, name):
    nd = sx.choose(name + '_nd', [1, 2])
    return sx.digits(name, nd)


PROTS = {
    'default': HttpRpc(app=APP),
    'soft': HttpRpc(app=APP, validator='soft'),
    'hier_delim=_': HttpRpc(app=APP, hier_delim='_'),
}


@harness('C03', params=[(n, cfg, shape) for n in (1, 2, 3) for cfg in ('default', 'soft', 'hier_delim=_')
                        for shape in ('Array', 'max_occurs')],
         label=lambda p: 'n=%d %s %s' % p,
         functions=['spyne.protocol.dictdoc.simple.SimpleDictDocument.simple_dict_to_object',
                    'spyne.protocol.dictdoc.simple.SimpleDictDocument._to_native_values',
                    'spyne.protocol.dictdoc.simple._s2cmi'],
         bounds={'doc': 'n <= 3 array elements keyed b[<idx>].v with symbolic 1-2 digit sparse indexes (pairwise '
                        'distinct numeric values), one symbolic digit as value each; plus a scalar member'})
def array_index_order(sx, p):
    """array elements arrive in numeric index order with their own values, whatever the key order"""
    n, cfg, shape = p
    prot = PROTS[cfg]
    d = '_' if cfg == 'hier_delim=_' else '.'
    cls, arr = (Outer, 'b') if shape == 'Array' else (Outer2, 'c')
    idx = [_idx_text(sx, 'i%d' % j) for j in range(n)]
    iv = [sx.digits_value(t) for t in idx]
    for j in range(n):
        for k in range(j):
            sx.assume(sx.Not(iv[j] == iv[k]))
    vals = [sx.digits('v%d' % j, 1) for j in range(n)]
    pairs = [(arr + '[' + idx[j] + ']' + d + 'v', [vals[j]]) for j in range(n)]
    pairs.append(('a', ['7']))
    doc = sx.mkdict(pairs)
    out = prot.simple_dict_to_object(CTX, doc, cls, prot.validator)
    got = getattr(out, arr)
    ok = [out.a == 7, got is not None and len(got) == n]
    if got is None or len(got) != n:
        return False
    for j in range(n):
        rank = 0
        for k in range(n):
            rank = rank + sx.ite(iv[k] < iv[j], 1, 0)
        for pos in range(n):
            ok.append(sx.Implies(sx.eq(rank, pos), sx.eq(got[pos].v, sx.digits_value(vals[j]))))
    return sx.And(*ok)


def _occ_class(mn, mx):
    class Holder(ComplexModel):
        __namespace__ = 'tns'
        __type_name__ = 'HHolder_%s_%s' % (mn, mx)
        _type_info = [('x', Integer(min_occurs=mn, max_occurs=mx)), ('y', Unicode)]
    return Holder


OCC_GRID = [(mn, mx) for mn in (0, 1, 2) for mx in (1, 2, 3, 'unbounded') if mx == 'unbounded' or mx >= mn]
OCC_CLASSES = {g: _occ_class(*g) for g in OCC_GRID}
SOFT = PROTS['soft']


@harness('C03', name='http_occurs', params=[(g, sp) for g in OCC_GRID for sp in ('repeat', 'indexed')],
         label=lambda p: 'min=%s max=%s %s' % (p[0][0], p[0][1], p[1]),
         functions=['spyne.protocol.dictdoc.simple.SimpleDictDocument.simple_dict_to_object',
                    'spyne.protocol.dictdoc._base.DictDocument._check_freq_dict'],
         bounds={'count': '0..max+2 values (4 for unbounded); spelled as a repeated key x=..&x=.. or as '
                          'indexed keys x[0]=..&x[1]=..'})
def http_occurs(sx, p):
    """HttpRpc soft validation: n values for a member are accepted <=> min_occurs <= n <= max_occurs,
    for both spellings of a repeated primitive"""
    (mn, mx), spelling = p
    cls = OCC_CLASSES[(mn, mx)]
    top = 4 if mx == 'unbounded' else mx + 2
    n = sx.choose('n', list(range(0, top + 1)))
    vals = [sx.digits('v%d' % i, 1) for i in range(n)]
    pairs = [('y', ['s'])]
    if spelling == 'repeat':
        if n:
            pairs.append(('x', list(vals)))
    else:
        for i in range(n):
            pairs.append(('x[%d]' % i, [vals[i]]))
    doc = sx.mkdict(pairs)
    out = run_soft(lambda: SOFT.simple_dict_to_object(CTX, doc, cls, SOFT.validator))
    ok = n >= mn and (mx == 'unbounded' or n <= mx)
    sx.observe('accepted', out.accepted)
    if out.accepted:
        got = out.value.x
        if n == 0:
            same = got is None or got == []
        elif mx == 1:
            same = sx.eq(got, sx.digits_value(vals[0]))
        else:
            same = sx.And(len(got) == n, *[sx.eq(a, sx.digits_value(b)) for a, b in zip(got, vals)])
        return sx.And(ok, same)
    return sx.And(not ok, is_client_validation_fault(out.fault))

"""C03 — HttpRpc flat key/value fidelity: index mapping, array order, flat round trip."""
from symx.api import harness
from harness.common import run_soft, is_client_validation_fault, fake_ctx

from spyne import Application, Service, rpc, ComplexModel
from spyne.model.primitive import Integer, Unicode
from spyne.model.complex import Array
from spyne.protocol.http import HttpRpc
from spyne.protocol.dictdoc.simple import _s2cmi, SimpleDictDocument


class InnerBase(ComplexModel):
    __namespace__ = 'tns'
    v = Integer


class Inner(InnerBase):          # v is inherited; tags is a primitive array below the root
    __namespace__ = 'tns'
    w = Unicode
    tags = Array(Integer)


class Outer(ComplexModel):
    __namespace__ = 'tns'
    a = Integer
    b = Array(Inner)


class Outer2(ComplexModel):
    __namespace__ = 'tns'
    a = Integer
    c = Inner.customize(max_occurs='unbounded')


class _Svc(Service):
    @rpc(Outer, Outer2, _returns=Integer)
    def f(ctx, o, o2):
        return 1


APP = Application([_Svc], 'tns', in_protocol=HttpRpc(), out_protocol=HttpRpc())
CTX = fake_ctx(APP)


@harness('C03', tier_params={'quick': [1, 2, 3, 4], 'thorough': [1, 2, 3, 4, 5, 6]}, label=lambda n: 'n=%d' % n,
         functions=['spyne.protocol.dictdoc.simple._s2cmi'],
         bounds={'state': 'arbitrary map of n <= 4 (quick) / 6 (thorough) sparse->contiguous entries satisfying the rank '
                          'invariant, arbitrary storage order, arbitrary new index (one inductive step)'})
def s2cmi_step(sx, n):
    """from any valid map, inserting any new sparse index returns its rank and keeps the invariant"""
    ks = [sx.int('k%d' % i, 0, 10 ** 6) for i in range(n)]
    nidx = sx.int('nidx', 0, 10 ** 6)
    for i in range(n):
        sx.assume(sx.Not(ks[i] == nidx))
        for j in range(i):
            sx.assume(sx.Not(ks[i] == ks[j]))

    def rank(x, keys):
        r = 0
        for k in keys:
            r = r + sx.ite(k < x, 1, 0)
        return r
    vs = [rank(ks[i], ks) for i in range(n)]        # representation invariant: value = rank of key
    m = sx.mkdict(list(zip(ks, vs)))
    r = _s2cmi(m, nidx)
    allk = ks + [nidx]
    ok = [sx.eq(r, rank(nidx, ks)), sx.eq(m[nidx], r), len(m) == n + 1]
    for i in range(n):
        ok.append(sx.eq(m[ks[i]], rank(ks[i], allk)))
    return sx.And(*ok)


def _idx_text(sx, name):
    nd = sx.choose(name + '_nd', [1, 2])
    return sx.digits(name, nd)


PROTS = {
    'default': HttpRpc(app=APP),
    'soft': HttpRpc(app=APP, validator='soft'),
    'hier_delim=_': HttpRpc(app=APP, hier_delim='_'),
    'strict': HttpRpc(app=APP, strict_arrays=True),
    'strict+soft': HttpRpc(app=APP, strict_arrays=True, validator='soft'),
}


_AIO = lambda ns: [(n, cfg, shape) for n in ns for cfg in ('default', 'soft', 'hier_delim=_') for shape in ('Array', 'max_occurs')]


@harness('C03', tier_params={'quick': _AIO((1, 2, 3)), 'thorough': _AIO((1, 2, 3, 4))},
         label=lambda p: 'n=%d %s %s' % p,
         functions=['spyne.protocol.dictdoc.simple.SimpleDictDocument.simple_dict_to_object',
                    'spyne.protocol.dictdoc.simple.SimpleDictDocument._to_native_values',
                    'spyne.protocol.dictdoc.simple._s2cmi'],
         bounds={'doc': 'n <= 3 (quick) / 4 (thorough) array elements keyed b[<idx>].v with symbolic 1-2 digit sparse indexes (pairwise '
                        'distinct numeric values), one symbolic digit as value each; plus a scalar member'})
def array_index_order(sx, p):
    """array elements arrive in numeric index order with their own values, whatever the key order"""
    n, cfg, shape = p
    prot = PROTS[cfg]
    d = '_' if cfg == 'hier_delim=_' else '.'
    cls, arr = (Outer, 'b') if shape == 'Array' else (Outer2, 'c')
    idx = [_idx_text(sx, 'i%d' % j) for j in range(n)]
    iv = [sx.digits_value(t) for t in idx]
    for j in range(n):
        for k in range(j):
            sx.assume(sx.Not(iv[j] == iv[k]))
    vals = [sx.digits('v%d' % j, 1) for j in range(n)]
    pairs = [(arr + '[' + idx[j] + ']' + d + 'v', [vals[j]]) for j in range(n)]
    pairs.append(('a', ['7']))
    doc = sx.mkdict(pairs)
    out = prot.simple_dict_to_object(CTX, doc, cls, prot.validator)
    got = getattr(out, arr)
    ok = [out.a == 7, got is not None and len(got) == n]
    if got is None or len(got) != n:
        return False
    for j in range(n):
        rank = 0
        for k in range(n):
            rank = rank + sx.ite(iv[k] < iv[j], 1, 0)
        for pos in range(n):
            ok.append(sx.Implies(sx.eq(rank, pos), sx.eq(got[pos].v, sx.digits_value(vals[j]))))
    return sx.And(*ok)


def _occ_class(mn, mx):
    class Holder(ComplexModel):
        __namespace__ = 'tns'
        __type_name__ = 'HHolder_%s_%s' % (mn, mx)
        _type_info = [('x', Integer(min_occurs=mn, max_occurs=mx)), ('y', Unicode)]
    return Holder


OCC_GRID = [(mn, mx) for mn in (0, 1, 2) for mx in (1, 2, 3, 'unbounded') if mx == 'unbounded' or mx >= mn]
OCC_CLASSES = {g: _occ_class(*g) for g in OCC_GRID}
SOFT = PROTS['soft']


@harness('C03', name='http_occurs', params=[(g, sp) for g in OCC_GRID for sp in ('repeat', 'indexed')],
         label=lambda p: 'min=%s max=%s %s' % (p[0][0], p[0][1], p[1]),
         functions=['spyne.protocol.dictdoc.simple.SimpleDictDocument.simple_dict_to_object',
                    'spyne.protocol.dictdoc._base.DictDocument._check_freq_dict'],
         bounds={'count': '0..max+2 values (4 for unbounded); spelled as a repeated key x=..&x=.. or as '
                          'indexed keys x[0]=..&x[1]=..'})
def http_occurs(sx, p):
    """HttpRpc soft validation: n values for a member are accepted <=> min_occurs <= n <= max_occurs,
    for both spellings of a repeated primitive"""
    (mn, mx), spelling = p
    cls = OCC_CLASSES[(mn, mx)]
    top = 4 if mx == 'unbounded' else mx + 2
    n = sx.choose('n', list(range(0, top + 1)))
    vals = [sx.digits('v%d' % i, 1) for i in range(n)]
    pairs = [('y', ['s'])]
    if spelling == 'repeat':
        if n:
            pairs.append(('x', list(vals)))
    else:
        for i in range(n):
            pairs.append(('x[%d]' % i, [vals[i]]))
    doc = sx.mkdict(pairs)
    out = run_soft(lambda: SOFT.simple_dict_to_object(CTX, doc, cls, SOFT.validator))
    ok = n >= mn and (mx == 'unbounded' or n <= mx)
    sx.observe('accepted', out.accepted)
    if out.accepted:
        got = out.value.x
        if n == 0:
            same = got is None or got == []
        elif mx == 1:
            same = sx.eq(got, sx.digits_value(vals[0]))
        else:
            same = sx.And(len(got) == n, *[sx.eq(a, sx.digits_value(b)) for a, b in zip(got, vals)])
        return sx.And(ok, same)
    return sx.And(not ok, is_client_validation_fault(out.fault))


@harness('C03', tier_params={'quick': [(n, c, sh) for n in (1, 2, 3) for c in ('strict', 'strict+soft') for sh in ('Array', 'max_occurs')],
                             'thorough': [(n, c, sh) for n in (1, 2, 3, 4) for c in ('strict', 'strict+soft') for sh in ('Array', 'max_occurs')]},
         label=lambda p: 'n=%d %s %s' % p,
         functions=['spyne.protocol.dictdoc.simple.SimpleDictDocument.simple_dict_to_object'],
         bounds={'doc': 'n <= 3 (quick) / 4 (thorough) array elements keyed b[<idx>].v where the symbolic one-digit indexes '
                        'are any permutation of 0..n-1 (the contiguous spelling strict_arrays demands), stored in any order'})
def strict_arrays_order(sx, p):
    """strict_arrays=True: contiguous indexes in any pair order give the elements in index order"""
    n, cfg, shape = p
    prot = PROTS[cfg]
    cls, arr = (Outer, 'b') if shape == 'Array' else (Outer2, 'c')
    idx = [sx.digits('i%d' % j, 1) for j in range(n)]
    iv = [sx.digits_value(t) for t in idx]
    for j in range(n):
        sx.assume(iv[j] < n)
        for k in range(j):
            sx.assume(sx.Not(iv[j] == iv[k]))
    vals = [sx.digits('v%d' % j, 1) for j in range(n)]
    pairs = [(arr + '[' + idx[j] + '].v', [vals[j]]) for j in range(n)]
    pairs.append(('a', ['7']))
    out = prot.simple_dict_to_object(CTX, sx.mkdict(pairs), cls, prot.validator)
    got = getattr(out, arr)
    if got is None or len(got) != n:
        return False
    ok = [out.a == 7]
    for j in range(n):
        for pos in range(n):
            ok.append(sx.Implies(sx.eq(iv[j], pos), sx.eq(got[pos].v, sx.digits_value(vals[j]))))
    return sx.And(*ok)


def _obj_occ_class(mn, mx):
    class Holder(ComplexModel):
        __namespace__ = 'tns'
        __type_name__ = 'OHolder_%s_%s' % (mn, mx)
        _type_info = [('items', Inner.customize(min_occurs=mn, max_occurs=mx)), ('y', Unicode)]
    return Holder


OBJ_OCC_GRID = [(mn, mx) for mn in (0, 1, 2) for mx in (2, 3, 'unbounded')]
OBJ_OCC_CLASSES = {g: _obj_occ_class(*g) for g in OBJ_OCC_GRID}


@harness('C03', params=[(g, c) for g in OBJ_OCC_GRID for c in ('soft', 'strict+soft')],
         label=lambda p: 'min=%s max=%s %s' % (p[0][0], p[0][1], p[1]),
         functions=['spyne.protocol.dictdoc.simple.SimpleDictDocument.simple_dict_to_object',
                    'spyne.protocol.dictdoc._base.DictDocument._check_freq_dict'],
         bounds={'count': '0..max+1 objects (4 for unbounded) spelled items[0].v .. items[n-1].v next to a scalar member; '
                          'values symbolic digits; strict_arrays on and off'})
def http_object_occurs(sx, p):
    """HttpRpc soft validation: an array-of-objects member with n elements is accepted <=> min_occurs <= n <= max_occurs"""
    (mn, mx), cfg = p
    prot = PROTS[cfg]
    cls = OBJ_OCC_CLASSES[(mn, mx)]
    top = 4 if mx == 'unbounded' else mx + 1
    n = sx.choose('n', list(range(0, top + 1)))
    vals = [sx.digits('v%d' % i, 1) for i in range(n)]
    pairs = [('y', ['s'])] + [('items[%d].v' % i, [vals[i]]) for i in range(n)]
    out = run_soft(lambda: prot.simple_dict_to_object(CTX, sx.mkdict(pairs), cls, prot.validator))
    ok = n >= mn and (mx == 'unbounded' or n <= mx)
    sx.observe('accepted', out.accepted)
    if out.accepted:
        got = out.value.items
        if n == 0:
            return ok and (got is None or got == [])
        if got is None or len(got) != n:
            return False
        return sx.And(ok, *[sx.eq(a.v, sx.digits_value(b)) for a, b in zip(got, vals)])
    return sx.And(not ok, is_client_validation_fault(out.fault))


@harness('C03', params=['default', 'soft', 'hier_delim=_'],
         functions=['spyne.protocol.dictdoc.simple.SimpleDictDocument.simple_dict_to_object'],
         bounds={'doc': 'a primitive array spelled with explicit indexes nums[i]=v: two or three pairs with symbolic 1-2 digit indexes '
                        '(pairwise distinct numeric values, so 2 vs 10 is inside), symbolic digit values'})
def primitive_array_index_order(sx, cfg):
    """explicitly indexed primitive array elements arrive in numeric index order, whatever the order of the pairs"""
    prot = PROTS[cfg]
    n = sx.choose('n', [2, 3])
    idx = [_idx_text(sx, 'i%d' % j) for j in range(n)]
    iv = [sx.digits_value(t) for t in idx]
    for j in range(n):
        for k in range(j):
            sx.assume(sx.Not(iv[j] == iv[k]))
    vals = [sx.digits('v%d' % j, 1) for j in range(n)]
    pairs = [('nums[' + idx[j] + ']', [vals[j]]) for j in range(n)] + [('a', ['7'])]
    out = prot.simple_dict_to_object(CTX, sx.mkdict(pairs), Flat, prot.validator)
    got = out.nums
    if got is None or len(got) != n:
        return False
    ok = [out.a == 7]
    for j in range(n):
        rank = 0
        for k in range(n):
            rank = rank + sx.ite(iv[k] < iv[j], 1, 0)
        for pos in range(n):
            ok.append(sx.Implies(sx.eq(rank, pos), sx.eq(got[pos], sx.digits_value(vals[j]))))
    return sx.And(*ok)


@harness('C03', params=[(c, sh) for c in ('strict', 'strict+soft', 'default') for sh in ('Array', 'max_occurs')],
         label=lambda p: '%s %s' % p,
         functions=['spyne.protocol.dictdoc.simple.SimpleDictDocument.simple_dict_to_object'],
         bounds={'doc': 'an array of 11 or 12 objects spelled b[0].v .. b[11].v (two-digit indexes next to one-digit ones), values '
                        'symbolic digits'})
def long_arrays(sx, p):
    """arrays of more than ten elements: the contiguous spelling is accepted (also under strict_arrays) and the elements
    arrive in index order"""
    cfg, shape = p
    prot = PROTS[cfg]
    cls, arr = (Outer, 'b') if shape == 'Array' else (Outer2, 'c')
    n = sx.choose('n', [11, 12])
    vals = [sx.digits('v%d' % j, 1) for j in range(n)]
    pairs = [('%s[%d].v' % (arr, j), [vals[j]]) for j in range(n)] + [('a', ['7'])]
    out = prot.simple_dict_to_object(CTX, sx.mkdict(pairs), cls, prot.validator)
    got = getattr(out, arr)
    if got is None or len(got) != n:
        return False
    return sx.And(out.a == 7, *[sx.eq(got[j].v, sx.digits_value(vals[j])) for j in range(n)])


class TwoArrays(ComplexModel):
    __namespace__ = 'tns'
    xs = Array(Inner)
    ys = Array(Inner)
    zs = Inner.customize(max_occurs='unbounded')


@harness('C03', params=['default', 'soft', 'hier_delim=_', 'strict'],
         functions=['spyne.protocol.dictdoc.simple.SimpleDictDocument.simple_dict_to_object', 'spyne.protocol.dictdoc.simple._s2cmi'],
         bounds={'doc': 'one object with three arrays of objects (two wrapped, one repeated member), each given 0..2 elements with '
                        'symbolic one-digit indexes (contiguous from 0 under strict_arrays) and symbolic digit values'})
def sibling_arrays(sx, cfg):
    """several arrays of objects under one parent are independent: every element reaches its own array at its own rank"""
    prot = PROTS[cfg]
    d = '_' if cfg == 'hier_delim=_' else '.'
    pairs, want = [], {}
    for arr in ('xs', 'ys', 'zs'):
        n = sx.choose('n_' + arr, [1, 0, 2])
        if cfg == 'strict':
            idx = [str(j) for j in range(n)]
            iv = list(range(n))
        else:
            idx = [sx.digits('%s_i%d' % (arr, j), 1) for j in range(n)]
            iv = [sx.digits_value(t) for t in idx]
            if n == 2:
                sx.assume(iv[0] < iv[1])
        vals = [sx.digits('%s_v%d' % (arr, j), 1) for j in range(n)]
        for j in range(n):
            pairs.append((arr + '[' + idx[j] + ']' + d + 'v', [vals[j]]))
        want[arr] = vals
    if not pairs:
        sx.outside('no array element at all')
    out = prot.simple_dict_to_object(CTX, sx.mkdict(pairs), TwoArrays, prot.validator)
    ok = []
    for arr, vals in want.items():
        got = getattr(out, arr)
        if not vals:
            ok.append(got is None or got == [])
            continue
        if got is None or len(got) != len(vals):
            return False
        ok += [sx.eq(g.v, sx.digits_value(v)) for g, v in zip(got, vals)]
    return sx.And(*ok)


class Pair(ComplexModel):
    __namespace__ = 'tns'
    one = Inner
    two = Inner


class Twice(ComplexModel):
    __namespace__ = 'tns'
    p = Pair
    k = Inner
    ks = Array(Inner)


@harness('C03', params=['default', 'soft', 'hier_delim=_'],
         functions=['spyne.model.complex.ComplexModelBase.get_simple_type_info_with_prot',
                    'spyne.protocol.dictdoc.simple.SimpleDictDocument.simple_dict_to_object'],
         bounds={'doc': 'a signature that uses one complex type in four places (two sibling members of a nested object, a '
                        'member, an array); each of the four leaves p.one.v, p.two.v, k.v, ks[0].v present or absent, values '
                        'symbolic digits'})
def repeated_type_members(sx, cfg):
    """every place a complex type is used in is addressable: each leaf reaches its own member, absent ones stay None"""
    prot = PROTS[cfg]
    d = '_' if cfg == 'hier_delim=_' else '.'
    keys = ['p' + d + 'one' + d + 'v', 'p' + d + 'two' + d + 'v', 'k' + d + 'v', 'ks[0]' + d + 'v']
    have = [sx.choose('have%d' % i, [True, False]) for i in range(4)]
    vals = [sx.digits('v%d' % i, 1) for i in range(4)]
    pairs = [(keys[i], [vals[i]]) for i in range(4) if have[i]]
    out = prot.simple_dict_to_object(CTX, sx.mkdict(pairs), Twice, prot.validator)
    g = lambda o, *path: None if o is None else (g(getattr(o, path[0], None), *path[1:]) if path else o)
    got = [g(out, 'p', 'one', 'v'), g(out, 'p', 'two', 'v'), g(out, 'k', 'v'),
           (out.ks[0].v if getattr(out, 'ks', None) else None)]
    ok = []
    for i in range(4):
        ok.append(sx.eq(got[i], sx.digits_value(vals[i])) if have[i] else got[i] is None)
    return sx.And(*ok)


class Group(ComplexModel):
    __namespace__ = 'tns'
    name = Unicode
    items = Array(Inner)


class Outer3(ComplexModel):
    __namespace__ = 'tns'
    groups = Array(Group)


@harness('C03', params=['default', 'soft', 'hier_delim=_'],
         functions=['spyne.protocol.dictdoc.simple.SimpleDictDocument.simple_dict_to_object',
                    'spyne.protocol.dictdoc.simple._s2cmi'],
         bounds={'doc': 'two keys groups[i].items[j].v with four symbolic one-digit indexes ((i0,j0) != (i1,j1)), '
                        'symbolic one-digit values'})
def nested_index(sx, cfg):
    """with nested arrays every index addresses its own level: same outer index -> one group with two
    items ordered by the inner index; different outer indexes -> two groups ordered by the outer index"""
    prot = PROTS[cfg]
    d = '_' if cfg == 'hier_delim=_' else '.'
    i0, j0, i1, j1 = [sx.digits(n, 1) for n in ('i0', 'j0', 'i1', 'j1')]
    I0, J0, I1, J1 = [sx.digits_value(t) for t in (i0, j0, i1, j1)]
    v0, v1 = sx.digits('v0', 1), sx.digits('v1', 1)
    V0, V1 = sx.digits_value(v0), sx.digits_value(v1)
    sx.assume(sx.Not(sx.And(I0 == I1, J0 == J1)))
    key = lambda i, j: 'groups[' + i + ']' + d + 'items[' + j + ']' + d + 'v'
    doc = sx.mkdict([(key(i0, j0), [v0]), (key(i1, j1), [v1])])
    out = prot.simple_dict_to_object(CTX, doc, Outer3, prot.validator)
    gs = out.groups
    if gs is None:
        return False
    if len(gs) == 1:
        its = gs[0].items
        if its is None or len(its) != 2:
            return False
        first0 = J0 < J1
        return sx.And(I0 == I1,
                      sx.Implies(first0, sx.And(sx.eq(its[0].v, V0), sx.eq(its[1].v, V1))),
                      sx.Implies(sx.Not(first0), sx.And(sx.eq(its[0].v, V1), sx.eq(its[1].v, V0))))
    if len(gs) != 2 or any(g.items is None or len(g.items) != 1 for g in gs):
        return False
    first0 = I0 < I1
    a, b = gs[0].items[0].v, gs[1].items[0].v
    return sx.And(sx.Not(I0 == I1),
                  sx.Implies(first0, sx.And(sx.eq(a, V0), sx.eq(b, V1))),
                  sx.Implies(sx.Not(first0), sx.And(sx.eq(a, V1), sx.eq(b, V0))))


@harness('C03', params=['strict', 'strict+soft', 'default'],
         functions=['spyne.protocol.dictdoc.simple.SimpleDictDocument.simple_dict_to_object',
                    'spyne.protocol.dictdoc.simple._index_aware_key'],
         bounds={'doc': 'three keys groups[0].items[j].v whose inner indexes are a permutation of 0, 1, 2 in any pair order '
                        '(symbolic digits), symbolic one-digit values; strict_arrays on (contiguous indexes are conformant) and off'})
def nested_index_any_order(sx, cfg):
    """an array inside the elements of another array: whatever the order of the pairs, the items arrive in index order -
    also under strict_arrays, where the contiguous indexes 0, 1, 2 are conformant however they are permuted"""
    prot = PROTS[cfg]
    js = [sx.digits('j%d' % k, 1) for k in range(3)]
    J = [sx.digits_value(t) for t in js]
    vs = [sx.digits('v%d' % k, 1) for k in range(3)]
    sx.assume(sx.And(J[0] <= 2, J[1] <= 2, J[2] <= 2, sx.Not(J[0] == J[1]), sx.Not(J[0] == J[2]), sx.Not(J[1] == J[2])))
    doc = sx.mkdict([('groups[0].items[' + js[k] + '].v', [vs[k]]) for k in range(3)])
    out = prot.simple_dict_to_object(CTX, doc, Outer3, prot.validator)
    gs = out.groups
    if gs is None or len(gs) != 1 or gs[0].items is None or len(gs[0].items) != 3:
        return False
    its = gs[0].items
    ok = []
    for k in range(3):
        for pos in range(3):
            ok.append(sx.Implies(J[k] == pos, sx.eq(its[pos].v, sx.digits_value(vs[k]))))
    return sx.And(*ok)


def _eater(prot, v, t):
    return [prot.to_unicode(t, v)]


class Flat(ComplexModel):
    __namespace__ = 'tns'
    a = Integer
    s = Unicode
    inner = Inner
    b = Array(Inner)
    nums = Array(Integer)


@harness('C03', params=[(nb, nn, cfg) for nb in (0, 1, 2) for nn in (0, 2) for cfg in ('default', 'hier_delim=_')],
         label=lambda p: 'b=%d nums=%d %s' % p,
         functions=['spyne.protocol.dictdoc.simple.SimpleDictDocument.object_to_simple_dict',
                    'spyne.protocol.dictdoc.simple.SimpleDictDocument.simple_dict_to_object',
                    'spyne.protocol._outbase.OutProtocolBase.to_unicode'],
         bounds={'object': 'scalar int (|v| <= 9999) and 2-char string, nested object, array of <= 2 objects, '
                           'array of <= 2 ints; all leaves symbolic (array leaves 0..9 in quick, -9..99 in thorough)'})
def flat_roundtrip(sx, p):
    """simple_dict_to_object(object_to_simple_dict(o)) == o"""
    nb, nn, cfg = p
    prot = PROTS[cfg]
    a = sx.int('a', -9999, 9999)
    s = sx.text('s', 2, alphabet='ab[].')
    lo, hi = (0, 9) if sx.tier == 'quick' else (-9, 99)
    iv = sx.int('iv', lo, hi)
    bv = [sx.int('b%d' % i, lo, hi) for i in range(nb)]
    bw = [sx.text('w%d' % i, 1, alphabet='xy') for i in range(nb)]
    nums = [sx.int('n%d' % i, lo, hi) for i in range(nn)]
    bs = [Inner(v=bv[i], w=bw[i]) for i in range(nb)]
    # the (acyclic) object graph may reference one instance from two places
    share = sx.choose('share', ['none'] + (['b[0] is b[1]'] if nb == 2 else []))
    if share == 'b[0] is b[1]':
        bs[1] = bs[0]
        bv[1], bw[1] = bv[0], bw[0]
    tags = [sx.int('t%d' % i, 0, 9) for i in range(nn)]          # (one-digit: keeps the thorough tier inside its path budget)
    o = Flat(a=a, s=s, inner=Inner(v=iv, tags=tags if nn else None), b=bs if nb else None, nums=nums if nn else None)
    flat = prot.object_to_simple_dict(Flat, o, subinst_eater=_eater)
    doc = {}
    for k, v in flat.items():
        if isinstance(v, list) and v and isinstance(v[0], list):
            v = [x[0] for x in v]
        doc[k] = v
    back = prot.simple_dict_to_object(CTX, doc, Flat, prot.validator)
    ok = [sx.eq(back.a, a), sx.eq(back.s, s), back.inner is not None and sx.eq(back.inner.v, iv)]
    if nb:
        if back.b is None or len(back.b) != nb:
            return False
        for i in range(nb):
            ok += [sx.eq(back.b[i].v, bv[i]), sx.eq(back.b[i].w, bw[i])]
    else:
        ok.append(back.b is None or back.b == [])
    if nn:
        if back.nums is None or len(back.nums) != nn:
            return False
        ok += [sx.eq(x, y) for x, y in zip(back.nums, nums)]
        if back.inner.tags is None or len(back.inner.tags) != nn:       # a primitive array inside a nested object
            return False
        ok += [sx.eq(x, y) for x, y in zip(back.inner.tags, tags)]
    else:
        ok.append(back.nums is None or back.nums == [])
        ok.append(back.inner.tags is None or back.inner.tags == [])
    return sx.And(*ok)


@harness('C03', functions=['spyne.protocol._outbase.OutProtocolBase.to_bytes_iterable',
                           'spyne.protocol._outbase.OutProtocolBase.simple_model_to_bytes_iterable'],
         bounds={'value': 'every int |v| < 10^12; every 0..3 character ASCII string'})
def primitive_return_bytes(sx, p):
    """a single primitive return value is sent as exactly its text"""
    prot = PROTS['default']
    v = sx.int('v', -10 ** 12, 10 ** 12)
    chunks = list(prot.to_bytes_iterable(Integer, v))
    n = sx.choose('slen', [0, 1, 3])
    s = sx.text('s', n) if n else u''
    schunks = list(prot.to_bytes_iterable(Unicode, s))
    want = sx.render(v)
    want_b = want.encode('utf8')
    return sx.And(len(chunks) == 1, sx.eq(chunks[0], want_b),
                  len(schunks) == 1, sx.eq(schunks[0], s.encode('utf8')))


from spyne.server.wsgi import _parse_qs


def ref_quote(sx, text, space_as_plus):
    """reference percent-encoder: unreserved characters literally, everything else as %XX (space optionally '+')"""
    if not sx.symbolic:
        import urllib.parse
        return urllib.parse.quote_plus(text, safe='') if space_as_plus else urllib.parse.quote(text, safe='')
    import z3
    from symx.core import E
    from symx.strs import CStr, _cz
    out = []
    for ch in text.c:
        c = _cz(ch)
        unres = z3.Or(z3.And(c >= 48, c <= 57), z3.And(c >= 65, c <= 90), z3.And(c >= 97, c <= 122), c == 45, c == 46,
                      c == 95, c == 126)
        if E.branch(unres):
            out.append(ch)
        elif space_as_plus and E.branch(c == 32):
            out.append(43)
        else:
            hx = lambda v: z3.simplify(z3.If(v < 10, v + 48, v + 55))
            from symx.core import SInt
            sc = SInt(c)
            out += [37, hx((sc // 16).z), hx((sc % 16).z)]
    return CStr(out)


@harness('C03', params=[1, 2, 3], label=lambda n: 'value length %d' % n,
         functions=['spyne.server.wsgi._parse_qs'],
         bounds={'value': 'every string of 1..3 characters over { a Z 0 space & ; = + % / } percent-encoded by a reference '
                          'encoder (space as + or %20), between two other parameters'})
def query_string_decoding(sx, n):
    """a percent-encoded value comes out of the query-string parser exactly as it was, and does not disturb its
    neighbours, whatever separators or escapes it contains"""
    v = sx.text('v', n, alphabet='aZ0 &;=+%/')
    plus = sx.choose('space_as_plus', [True, False])
    qs = 'first=1&s=' + ref_quote(sx, v, plus) + '&last=x%3Dy'
    got = _parse_qs(qs)
    keys = list(got.keys())
    if keys != ['first', 's', 'last']:
        return False
    return sx.And(got['first'] == ['1'], len(got['s']) == 1, sx.eq(got['s'][0], v), got['last'] == ['x=y'])


# ---------------------------------------------------------------- declared HTTP response headers
from spyne.protocol.http import _header_to_bytes
from spyne.model.primitive import DateTime as _DateTime


@harness('C03', params=['offset', 'utc', 'naive'], functions=['spyne.protocol.http._header_to_bytes'],
         bounds={'value': 'four dates (leap day, year end, year start, mid-year: the weekday arithmetic makes a symbolic date too slow), every time of day, any UTC offset -14:00..+14:00 (symbolic minutes), UTC, or naive (taken as '
                          'UTC); integer headers |v| <= 10^9'})
def response_header_values(sx, tzkind):
    """a declared response header is sent as the exact text of its value: a date-time as the RFC 1123 date of its instant
    in GMT (symbolic part: time of day and shape; every witness: the whole date against email.utils), an integer as its
    decimal text"""
    v = sx.datetime('v', tz=tzkind, ymin=2023, ymax=2024)
    y, m, d = sx.choose('date', [(2024, 2, 29), (2023, 12, 31), (2024, 1, 1), (2023, 6, 15)])
    sx.assume(sx.And(sx.eq(v.year, y), sx.eq(v.month, m), sx.eq(v.day, d)))
    text = _header_to_bytes(PROTS['default'], v, _DateTime)
    sx.observe('text', text)
    n = sx.int('n', -10 ** 9, 10 ** 9)
    ok = [sx.eq(_header_to_bytes(PROTS['default'], n, Integer), sx.render(n))]
    if not sx.symbolic:
        import email.utils, datetime as _d
        inst = v if v.tzinfo is not None else v.replace(tzinfo=_d.timezone.utc)
        ok.append(text == email.utils.format_datetime(inst.astimezone(_d.timezone.utc).replace(microsecond=0), usegmt=True))
        return all(ok)
    shape = sx.matches(r'(Mon|Tue|Wed|Thu|Fri|Sat|Sun), [0-3][0-9] (Jan|Feb|Mar|Apr|May|Jun|Jul|Aug|Sep|Oct|Nov|Dec) [0-9]{4} '
                       r'[0-2][0-9]:[0-5][0-9]:[0-5][0-9] GMT', text)
    off = sx.offset_minutes(v) or 0
    hh, mm, ss = sx.digits_value(text[17:19]), sx.digits_value(text[20:22]), sx.digits_value(text[23:25])
    want = (v.hour * 60 + v.minute - off) % 1440
    ok += [shape, sx.eq(hh * 60 + mm, want), sx.eq(ss, v.second)]
    return sx.And(*ok)


# ---------------------------------------------------------------- a single primitive return value, every body style
RETV = {}


class _StyleSvc(Service):
    @rpc(Integer, _returns=Integer)
    def wrapped(ctx, a):
        RETV['args'] = (a,)
        return RETV['v']

    @rpc(Integer, Integer, _returns=Integer, _body_style='out_bare')
    def out_bare(ctx, a, b):
        RETV['args'] = (a, b)
        return RETV['v']

    @rpc(_returns=Integer, _body_style='bare')
    def bare_noargs(ctx):
        RETV['args'] = ()
        return RETV['v']

    @rpc(_returns=Unicode, _body_style='out_bare')
    def text_noargs(ctx):
        RETV['args'] = ()
        return RETV['s']


_STYLE_APP = Application([_StyleSvc], 'tns', in_protocol=HttpRpc(), out_protocol=HttpRpc())
_STYLE_REQ = {'wrapped': ('/wrapped', 'a=4', (4,)), 'out_bare': ('/out_bare', 'a=4&b=5', (4, 5)),
              'bare_noargs': ('/bare_noargs', '', ()), 'text_noargs': ('/text_noargs', '', ())}


@harness('C03', params=sorted(_STYLE_REQ), functions=['spyne.protocol.http.HttpRpc.serialize', 'spyne.protocol.http.HttpRpc._handle_rpc_nonempty',
                                                     'spyne.protocol._outbase.OutProtocolBase.to_bytes_iterable'],
         bounds={'methods': 'wrapped, out_bare with two arguments, bare without arguments, out_bare returning text; the return value '
                            'any integer |v| <= 10^12 / any string of 0..2 characters; GET through WsgiApplication'})
def response_body_styles(sx, m):
    """whatever the body style of the method, its single primitive return value is the response body: exactly its text,
    status 200, and the arguments arrive"""
    import io
    from spyne.server.wsgi import WsgiApplication
    path, qs, want_args = _STYLE_REQ[m]
    RETV.clear()
    RETV['v'] = v = sx.int('v', -10 ** 12, 10 ** 12)
    n = sx.choose('slen', [0, 1, 2])
    RETV['s'] = s = sx.text('s', n, lo=0x20, hi=0x7e) if n else u''
    environ = {'REQUEST_METHOD': 'GET', 'PATH_INFO': path, 'QUERY_STRING': qs, 'SERVER_NAME': 'localhost', 'SERVER_PORT': '80',
               'wsgi.url_scheme': 'http', 'wsgi.input': io.BytesIO(b''), 'CONTENT_TYPE': 'text/plain'}
    status = []
    chunks = list(WsgiApplication(_STYLE_APP)(environ, lambda st, h, e=None: status.append(st)))
    sx.observe('status', status)
    if not status or not status[0].startswith('200') or RETV.get('args') != want_args:
        return False
    body = b''
    for c in chunks:
        body = body + c
    want = s.encode('utf8') if m == 'text_noargs' else sx.render(v).encode('utf8')
    return sx.eq(body, want)

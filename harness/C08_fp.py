"""C08 — bit-precise check of the floating-point lemma the fractional-second codecs rest on:
int(round(float('.dddddd') * 1e6)) == dddddd for every six-digit fraction (and the 1..5 digit forms).
The path obligations use the real-arithmetic relaxation (symx/fp.py); this harness decides the same
statement in QF_BVFP (IEEE-754 double, round-to-nearest-even) slice by slice, and the native replay of each
slice enumerates it exhaustively on the real interpreter."""
from symx.api import harness

SLICES_Q = [(6, 0, 255), (6, 999744, 999999), (3, 0, 999), (1, 0, 9)]
SLICES_T = [(6, lo, lo + 4095) for lo in range(0, 1000000, 15625)] + [(k, 0, 10 ** k - 1) for k in (1, 2, 3)] + \
           [(4, lo, lo + 4095) for lo in (0, 5904)] + [(5, lo, lo + 4095) for lo in range(0, 100000, 25000)]


@harness('C08', tier_params={'quick': SLICES_Q, 'thorough': SLICES_T}, label=lambda p: 'digits=%d n in [%d, %d]' % p,
         functions=['spyne.protocol._inbase._parse_datetime_iso_match (fraction kernel)',
                    'spyne.protocol._inbase.InProtocolBase.time_from_unicode (fraction kernel)'],
         bounds={'fraction': 'bit-precise (QF_BVFP): quick 4 small slices; thorough 64 slices of 4096 six-digit fractions spread '
                             'evenly over the range, all 1-3 digit forms, slices of the 4-5 digit forms. The native replay of each '
                             'job enumerates its whole stride (together: every six-digit fraction) on the real interpreter'})
def fraction_kernel_bitprecise(sx, p):
    k, lo, hi = p
    if not sx.symbolic:
        # the native replay enumerates the whole stride around the slice exhaustively (it costs milliseconds)
        lo, hi = (lo // 15625) * 15625, min(10 ** k - 1, (lo // 15625) * 15625 + 15624)
        return all(min(999999, int(round(float('.%0*d' % (k, n)) * 1e6))) == n * 10 ** (6 - k) for n in range(lo, hi + 1))
    import z3
    from symx.core import E, Unsupported
    RNE, D = z3.RNE(), z3.Float64()
    s = z3.Solver()
    s.set('timeout', 300000)
    n = z3.BitVec('n', 64)
    s.add(z3.UGE(n, lo), z3.ULE(n, hi))
    x = z3.fpDiv(RNE, z3.fpSignedToFP(RNE, n, D), z3.FPVal(float(10 ** k), D))
    y = z3.fpRoundToIntegral(RNE, z3.fpMul(RNE, x, z3.FPVal(1e6, D)))
    back = z3.fpToSBV(z3.RTZ(), y, z3.BitVecSort(64))
    s.add(back != n * z3.BitVecVal(10 ** (6 - k), 64))
    r = s.check()
    E.nq += 1
    if r == z3.unknown:
        E.nq_unknown += 1
        raise Unsupported('bit-precise query: %s' % s.reason_unknown())
    if r == z3.sat:
        E.nq_sat += 1
        sx.observe('counterexample_numerator', s.model().eval(n).as_long())
        return False
    E.nq_unsat += 1
    return True

"""C05 — occurrence constraints over HttpRpc (same harness body as C03.http_occurs)."""
from symx.api import harness
from harness import C03_httprpc as h3

http_occurs = harness('C05', name='http_occurs', params=h3.http_occurs.harness.params,
                      label=h3.http_occurs.harness.label, functions=h3.http_occurs.harness.functions,
                      bounds=h3.http_occurs.harness.bounds)(h3.http_occurs.harness.fn)

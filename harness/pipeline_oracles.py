"""Oracles over a pipeline Record (see pipeline.py).  Each returns a list of problem strings."""
import re
from harness import pipeline as P

FAULTING_STAGES = ('call_listener_fault', 'call_listener_exc', 'fn_fault', 'fn_fault_detail', 'fn_exc',
                   'ret_listener_fault', 'ret_listener_exc', 'unserializable')


def lenient(sched):
    # percent-encoded bytes that are not UTF-8 are accepted by the query-string parser
    return P.in_of(sched['proto']) == 'http' and sched['request'] == 'bad_utf8'


def fn_expected(sched):
    return (sched['request'] == 'valid' or lenient(sched)) and not sched['stage'].startswith('call_listener')


def returned_normally(sched):
    return fn_expected(sched) and sched['stage'] not in ('fn_fault', 'fn_fault_detail', 'fn_exc')


def fault_expected(sched):
    return (sched['request'] != 'valid' and not lenient(sched)) or sched['stage'] in FAULTING_STAGES


def _with_trace(rec, tr):
    import copy
    r = copy.copy(rec)
    r.trace = tr
    return r


def events_of(rec, tag):
    return [t.split(':', 1)[1] for t in rec.trace if t.startswith(tag + ':')]


def check_events(sched, rec, judge_unserialisable_exception_object=True):
    """C14: the specification automaton, written from the property text"""
    pr = []
    tr = rec.trace
    if sched['stage'] == 'unserializable' and not judge_unserialisable_exception_object:
        tr = [t for t in tr if not t.endswith(':method_exception_object')]
        rec = _with_trace(rec, tr)
    wsgi = sched['transport'] != 'server'
    raiser = sched['level'] if 'listener' in sched['stage'] else None
    raise_event = None
    if sched['stage'].startswith('call_listener'):
        raise_event = 'method_call'
    elif sched['stage'].startswith('ret_listener'):
        raise_event = 'method_return_object'
    app = events_of(rec, 'appA')
    # created first / closed last, once each
    if not app or app[0] != 'method_context_created':
        pr.append('method_context_created is not the first event seen by the application listener')
    if app.count('method_context_created') != 1:
        pr.append('method_context_created fired %d times' % app.count('method_context_created'))
    if wsgi:
        if app.count('method_context_closed') != 1:
            pr.append('method_context_closed fired %d times' % app.count('method_context_closed'))
        elif app[-1] != 'method_context_closed':
            pr.append('method_context_closed is not the last application event')
    # user function at most once and only after method_call
    fns = [i for i, t in enumerate(tr) if t.startswith('fn:')]
    if len(fns) > 1:
        pr.append('user function ran %d times' % len(fns))
    if fns:
        if 'appA:method_call' not in tr[:fns[0]]:
            pr.append('user function ran before method_call')
    if bool(fns) != fn_expected(sched) and (sched['request'] == 'valid' or lenient(sched)):
        pr.append('user function %s' % ('did not run' if not fns else 'ran although the call was refused'))
    if sched['request'] != 'valid' and not lenient(sched) and fns:
        pr.append('user function ran for a request answered with a fault')
    # method_return_object iff returned normally; method_exception_object iff the call ends in a fault
    nro = app.count('method_return_object')
    if nro != (1 if returned_normally(sched) else 0):
        pr.append('method_return_object fired %d times (function returned normally: %s)' % (nro, returned_normally(sched)))
    neo = app.count('method_exception_object')
    want_fault = fault_expected(sched)
    skip_eo = sched['stage'] == 'unserializable' and not judge_unserialisable_exception_object
    if skip_eo:
        # the missing method_exception_object of this schedule is a recorded finding judged by its own harness
        neo = 1 if want_fault else 0
    if neo != (1 if want_fault else 0):
        pr.append('method_exception_object fired %d times (call ends in a fault: %s)' % (neo, want_fault))
    # matching document and string events, in that order
    tail_names = ('method_return_document', 'method_return_string', 'method_exception_document',
                  'method_exception_string')
    tail = [e for e in app if e in tail_names]
    want_tail = ['method_exception_document', 'method_exception_string'] if want_fault else \
        ['method_return_document', 'method_return_string']
    if tail != want_tail:
        pr.append('document/string events %r, expected %r' % (tail, want_tail))
    if want_fault and neo == 1 and tail == want_tail and 'method_exception_object' in app:
        if app.index('method_exception_object') > app.index('method_exception_document'):
            pr.append('method_exception_document before method_exception_object')
    if not want_fault and nro == 1 and tail == want_tail:
        if app.index('method_return_object') > app.index('method_return_document'):
            pr.append('method_return_document before method_return_object')
    # registration order and de-duplication: appB follows appA immediately, once per firing
    for i, t in enumerate(tr):
        if t.startswith('appB:'):
            if i == 0 or tr[i - 1] != 'appA:' + t[5:]:
                pr.append('listener B ran without listener A immediately before it at %s' % t)
        if t.startswith('appA:') and i + 1 < len(tr) and tr[i + 1] == t:
            pr.append('listener registered twice ran twice at %s' % t)
    b = events_of(rec, 'appB')
    for ev in set(app):
        exp = app.count(ev) - (1 if (raiser == 'appA' and ev == raise_event) else 0)
        if b.count(ev) != exp:
            pr.append('listener B saw %s %d times, listener A %d times' % (ev, b.count(ev), app.count(ev)))
    # service-level (inherited) and method-level listeners see the method events of their method
    if sched['request'] in ('valid', 'invalid_arg', 'wrong_kind') or lenient(sched):
        svc, meth = events_of(rec, 'svc'), events_of(rec, 'meth')
        # `work` carries a method-level manager; `small` only in the http-json application (shared list)
        has_meth_mgr = sched['request'] != 'invalid_arg' or sched['proto'] == 'http-json'
        for ev in P.METHOD_EVENTS:
            a = app.count(ev)
            hit = ev == raise_event
            ok_svc = {a - 1} if (hit and raiser == 'appA') else ({a, a - 1} if (hit and raiser == 'meth') else {a})
            ok_meth = {a - 1} if (hit and raiser == 'appA') else ({a, a - 1} if (hit and raiser == 'svc') else {a})
            if svc.count(ev) not in ok_svc:
                pr.append('inherited service listener saw %s %d times, application listener %d' % (ev, svc.count(ev), a))
            svcb = events_of(rec, 'svcB').count(ev)
            if svcb not in ({a - 1} if (hit and raiser == 'appA') else ({a, a - 1} if (hit and raiser in ('meth', 'svc')) else {a})):
                pr.append('listener inherited from the second base saw %s %d times, application listener %d' % (ev, svcb, a))
            if has_meth_mgr and meth.count(ev) not in ok_meth:
                pr.append('method listener saw %s %d times, application listener %d' % (ev, meth.count(ev), a))
    if any(t.startswith('svc2:') for t in tr):
        pr.append('listener of a sibling service fired')
    if rec.escaped is not None and not (sched['stage'] == 'unserializable' and sched['transport'] == 'server'):
        pr.append('exception escaped the pipeline: %r' % (rec.escaped,))
    return pr


STATUS_RE = re.compile(r'^\d{3} \S.*$')


def check_wsgi(sched, rec, allow_eager_close=False):
    """C13: PEP 3333 response protocol, context lifetime"""
    pr = []
    if rec.escaped is not None:
        pr.append('exception escaped the WSGI callable: %r' % (rec.escaped,))
        return pr
    sr = rec.start_response
    if len(sr) != 1:
        pr.append('start_response called %d times' % len(sr))
        return pr
    status, headers, pos = sr[0]
    if pos != 0 or rec.extra.get('iter_started_with_start_response') != 1:
        pr.append('start_response not called before the body was handed over')
    if not isinstance(status, str) or not STATUS_RE.match(status):
        pr.append('bad status %r' % (status,))
    if not isinstance(headers, list) or any(not (isinstance(h, tuple) and len(h) == 2 and isinstance(h[0], str)
                                                 and isinstance(h[1], str)) for h in headers):
        pr.append('headers are not a list of (str, str)')
    else:
        want = {'str': ['a=1'], 'list': ['a=1', 'b=2'], 'tuple': ['a=1', 'b=2']}.get(sched.get('headers'))
        if want is not None and [v for k, v in headers if k == 'Set-Cookie'] != want:
            pr.append('header values set by user code not sent one line each, in order: %r' %
                      ([v for k, v in headers if k == 'Set-Cookie'],))
    if any(not isinstance(c, bytes) for c in rec.chunks):
        pr.append('non-bytes body chunk')
    else:
        total = sum(len(c) for c in rec.chunks)
        for k, v in (headers if isinstance(headers, list) else []):
            if k.lower() == 'content-length' and v != str(total):
                pr.append('Content-Length %s != %d body bytes' % (v, total))
    if sched.get('request') == 'too_long' and all(isinstance(c, bytes) for c in rec.chunks):
        # refused with the request-too-long fault, whatever the input protocol makes of such bodies
        resp = P.parse_response(sched['proto'], b''.join(rec.chunks))
        if resp[0] != 'fault' or resp[1] != 'Client.RequestTooLong':
            pr.append('a request longer than max_content_length was answered with %r' % (resp[:2],))
        if P.out_of(sched['proto']) != 'soap11' and isinstance(status, str) and not status.startswith('413'):
            pr.append('HTTP status %r for a request longer than max_content_length' % (status,))
        if any(t.startswith('fn:') for t in rec.trace):
            pr.append('user code ran for a request longer than max_content_length')
    closed = rec.extra.get('closed', [])
    if len(closed) != 1:
        pr.append('context closed %d times' % len(closed))
    elif not allow_eager_close and closed[0] < len(rec.chunks):
        pr.append('context closed after %d of %d body chunks' % (closed[0], len(rec.chunks)))
    return pr


def eager_close_only(problems):
    return problems and all(p.startswith('context closed after') for p in problems)


def check_hostile(sched, rec):
    """C10: malformed / ill-typed requests end in a Client fault, never a crash, function not run"""
    pr = []
    if sched['request'] == 'valid' or not fault_expected(sched):
        return pr
    if rec.escaped is not None:
        pr.append('exception escaped: %r' % (rec.escaped,))
        return pr
    if any(t.startswith('fn:') for t in rec.trace):
        pr.append('user function ran for a refused request')
    resp = P.parse_response(sched['proto'], rec.body)
    if resp[0] != 'fault':
        pr.append('response is not a fault document: %r' % (resp[:2],))
    else:
        code = resp[1] or ''
        if not (code == 'Client' or code.startswith('Client.')):
            pr.append('fault code %r is not in the Client family' % (code,))
    if sched['request'] == 'too_long' and rec.start_response and P.out_of(sched['proto']) != 'soap11' \
            and not rec.start_response[0][0].startswith('413'):
        pr.append('HTTP status %r for a request longer than max_content_length' % (rec.start_response[0][0],))
    if rec.start_response and P.out_of(sched['proto']) != 'soap11':
        st = rec.start_response[0][0]
        if not st.startswith('4'):
            pr.append('HTTP status %r for a malformed request' % (st,))
    return pr


def check_fault_wire(sched, rec):
    """C09: faults arrive intact, return value not sent, generic fault for other exceptions, no leak"""
    pr = []
    st = sched['stage']
    if sched['request'] != 'valid' or st not in FAULTING_STAGES:
        return pr
    if rec.escaped is not None:
        pr.append('exception escaped: %r' % (rec.escaped,))
        return pr
    resp = P.parse_response(sched['proto'], rec.body)
    if resp[0] != 'fault':
        pr.append('response is not a fault: %r' % (resp[:2],))
        return pr
    _, code, string, detail = resp
    code = (code or '').split(':')[-1]
    if st in ('fn_fault', 'fn_fault_detail'):
        wcode = 'Server.Custom' if st == 'fn_fault_detail' else 'Client.Custom.Sub'
        if code != wcode or string != u'custom méssage':
            pr.append('fault arrived as (%r, %r)' % (code, string))
        if st == 'fn_fault_detail':
            if isinstance(detail, dict):
                if detail != {'first': {'k': 'v', 'zero': 0, 'no': False}, 'second': 'w'}:
                    pr.append('detail arrived as %r' % (detail,))
            elif not detail or b'first' not in detail or b'second' not in detail or b'>v<' not in detail \
                    or b'>w<' not in detail or b'>0<' not in detail or b'>False<' not in detail:
                # (XML family: leaves are written as text; the falsy ones 0 / False keep their value)
                pr.append('detail arrived as %r' % (detail,))
        elif detail not in (None, '', {}):
            pr.append('unexpected detail %r' % (detail,))
    elif st.endswith('_fault'):
        if code != 'Client.Listener' or string != 'listener says no':
            pr.append('listener fault arrived as (%r, %r)' % (code, string))
    else:
        if code != 'Server' or string != 'Internal Error':
            pr.append('generic fault expected, got (%r, %r)' % (code, string))
    if b'secret' in rec.body or b'4711' in rec.body or b'Boom' in rec.body or b'Traceback' in rec.body:
        pr.append('exception text leaked into the response')
    if rec.start_response:
        stt = rec.start_response[0][0][:3]
        want = '500' if P.out_of(sched['proto']) == 'soap11' else ('400' if code == 'Client' or code.startswith('Client.') else '500')
        if stt != want:
            pr.append('HTTP status %s, expected %s' % (stt, want))
    return pr

"""C14 — event hooks fire in documented order, exactly once, on success and on every single failure
injected by the schedule (see pipeline.py)."""
from symx.api import harness
from harness import pipeline as P, pipeline_oracles as O

PARAMS = [(proto, tr) for proto in ('json', 'xml', 'soap11', 'http-json')
          for tr in ('server', 'wsgi-chunked', 'wsgi-unchunked') if not (proto == 'http-json' and tr == 'server')]


@harness('C14', params=PARAMS, label=lambda p: '%s %s' % p,
         functions=['spyne.application.Application.process_request', 'spyne.server._base.ServerBase.generate_contexts',
                    'spyne.server._base.ServerBase.get_in_object', 'spyne.server._base.ServerBase.get_out_object',
                    'spyne.server._base.ServerBase.finalize_context', 'spyne.server.wsgi.WsgiApplication.handle_rpc',
                    'spyne.server.wsgi.WsgiApplication.handle_error', 'spyne.evmgr.EventManager.fire_event',
                    'spyne.context.MethodContext.fire_event', 'spyne.service.ServiceBaseMeta'],
         bounds={'schedule': '15 request kinds (9 generic + 6 JSON documents that are no envelope) x 9 failing stages x {Fault, non-Fault} x 3 listener levels, one failure '
                             'per call; listeners at application (two, one registered twice), inherited service, '
                             'method, protocol and transport level'})
def event_order(sx, p):
    proto, transport = p
    sched, rec = P.run_scenario(sx, proto, transport)
    if sched['stage'] == 'unserializable' and P.out_of(proto) in ('json', 'jsonp'):
        sx.outside('unserialisable return values are only in scope for the eagerly serialising XML protocols')
    problems = O.check_events(sched, rec, judge_unserialisable_exception_object=(transport != 'server'))
    sx.observe('problems', problems)
    return not problems


@harness('C14', params=[p for p in PARAMS if p[0] in ('xml', 'soap11')], label=lambda p: '%s %s' % p,
         functions=['spyne.server.wsgi.WsgiApplication.handle_rpc', 'spyne.server._base.ServerBase.get_out_string_pull'],
         bounds={'schedule': 'only the schedule "user function returns a value the eagerly serialising XML protocol cannot '
                             'serialise"'})
def unserialisable_return_events(sx, p):
    """method_exception_object fires when the call ends in a fault because the return value cannot be serialised"""
    proto, transport = p
    sched, rec = P.run_scenario(sx, proto, transport)
    if sched['stage'] != 'unserializable':
        sx.outside('other schedules are judged by event_order')
    problems = [x for x in O.check_events(sched, rec) if 'method_exception_object' in x or 'escaped' in x]
    sx.observe('problems', problems)
    return not problems


# ---------------------------------------------------------------- the listener registry itself (bounded histories)
from spyne.evmgr import EventManager
from spyne.util.oset import oset

FIRED = []
HANDLERS = []
for _i in range(3):
    def _mk(i):
        def h(ctx):
            FIRED.append(i)
        h.__name__ = 'h%d' % i
        return h
    HANDLERS.append(_mk(_i))
OPS = [('add', 0), ('add', 1), ('add', 2), ('del', 0), ('del', 1), ('del', 2)]


@harness('C14', tier_params={'quick': [1, 2, 3, 4], 'thorough': [1, 2, 3, 4, 5, 6]}, label=lambda n: 'history=%d' % n,
         functions=['spyne.evmgr.EventManager.add_listener', 'spyne.evmgr.EventManager.del_listener',
                    'spyne.evmgr.EventManager.fire_event', 'spyne.util.oset.oset.add', 'spyne.util.oset.oset.discard',
                    'spyne.util.oset.oset.__iter__'],
         bounds={'history': 'every sequence of n <= 4 (quick) / 6 (thorough) add_listener / del_listener operations over three '
                            'handlers (removals only of registered handlers), the event fired after every step; also the '
                            'ordered set on its own: len, membership, iteration in both directions after every step'})
def listener_registry_history(sx, n):
    """after any history of registrations and removals an event runs exactly the currently registered handlers, once
    each, in registration order"""
    mgr = EventManager(None)
    model = []
    ok = []
    for step in range(n):
        avail = [op for op in OPS if op[0] == 'add' or op[1] in model]
        kind, i = sx.choose('op%d' % step, avail)
        if kind == 'add':
            mgr.add_listener('ev', HANDLERS[i])
            if i not in model:
                model.append(i)
        else:
            mgr.del_listener('ev', HANDLERS[i])
            model.remove(i)
        del FIRED[:]
        mgr.fire_event('ev', None)
        ok.append(list(FIRED) == model)
        hs = mgr.handlers.get('ev', oset())
        ok.append(len(hs) == len(model) and [HANDLERS.index(h) for h in hs] == model and
                  [HANDLERS.index(h) for h in reversed(hs)] == model[::-1] and
                  all((HANDLERS[j] in hs) == (j in model) for j in range(3)))
    return all(ok)

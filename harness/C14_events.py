"""C14 — event hooks fire in documented order, exactly once, on success and on every single failure
injected by the schedule (see pipeline.py)."""
from symx.api import harness
from harness import pipeline as P, pipeline_oracles as O

PARAMS = [(proto, tr) for proto in ('json', 'xml', 'soap11', 'http-json')
          for tr in ('server', 'wsgi-chunked', 'wsgi-unchunked') if not (proto == 'http-json' and tr == 'server')]


@harness('C14', params=PARAMS, label=lambda p: '%s %s' % p,
         functions=['spyne.application.Application.process_request', 'spyne.server._base.ServerBase.generate_contexts',
                    'spyne.server._base.ServerBase.get_in_object', 'spyne.server._base.ServerBase.get_out_object',
                    'spyne.server._base.ServerBase.finalize_context', 'spyne.server.wsgi.WsgiApplication.handle_rpc',
                    'spyne.server.wsgi.WsgiApplication.handle_error', 'spyne.evmgr.EventManager.fire_event',
                    'spyne.context.MethodContext.fire_event', 'spyne.service.ServiceBaseMeta'],
         bounds={'schedule': '8 request kinds x 9 failing stages x {Fault, non-Fault} x 3 listener levels, one failure '
                             'per call; listeners at application (two, one registered twice), inherited service, '
                             'method, protocol and transport level'})
def event_order(sx, p):
    proto, transport = p
    sched, rec = P.run_scenario(sx, proto, transport)
    if sched['stage'] == 'unserializable' and P.out_of(proto) in ('json', 'jsonp'):
        sx.outside('unserialisable return values are only in scope for the eagerly serialising XML protocols')
    problems = O.check_events(sched, rec, judge_unserialisable_exception_object=False)
    sx.observe('problems', problems)
    return not problems


@harness('C14', params=[p for p in PARAMS if p[0] in ('xml', 'soap11')], label=lambda p: '%s %s' % p,
         functions=['spyne.server.wsgi.WsgiApplication.handle_rpc', 'spyne.server._base.ServerBase.get_out_string_pull'],
         bounds={'schedule': 'only the schedule "user function returns a value the eagerly serialising XML protocol cannot '
                             'serialise"'})
def unserialisable_return_events(sx, p):
    """method_exception_object fires when the call ends in a fault because the return value cannot be serialised"""
    proto, transport = p
    sched, rec = P.run_scenario(sx, proto, transport)
    if sched['stage'] != 'unserializable':
        sx.outside('other schedules are judged by event_order')
    problems = [x for x in O.check_events(sched, rec) if 'method_exception_object' in x or 'escaped' in x]
    sx.observe('problems', problems)
    return not problems

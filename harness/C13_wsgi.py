"""C13 — PEP 3333 response protocol and context lifetime of the WSGI callable, under the fault
schedule of pipeline.py."""
from symx.api import harness
from harness import pipeline as P, pipeline_oracles as O

PARAMS = [(proto, tr) for proto in ('json', 'xml', 'soap11', 'http-json', 'json-jsonp') for tr in ('wsgi-chunked', 'wsgi-unchunked')]


@harness('C13', params=PARAMS, label=lambda p: '%s %s' % p,
         functions=['spyne.server.wsgi.WsgiApplication.__call__', 'spyne.server.wsgi.WsgiApplication.handle_rpc',
                    'spyne.server.wsgi.WsgiApplication.handle_error', 'spyne.server.wsgi.WsgiApplication.__finalize',
                    'spyne.server._base.ServerBase.finalize_context', 'spyne.context.MethodContext.close'],
         bounds={'schedule': 'as C14 (8 request kinds x 9 failing stages x Fault/non-Fault x listener level), '
                             'chunked on/off, 5 protocol pairs; user code setting a response header to one value, a list or a tuple of values'})
def wsgi_protocol(sx, p):
    """start_response once, before the body, str status/headers, bytes chunks, Content-Length = body size,
    context closed exactly once and not before the body has been handed over"""
    proto, transport = p
    sched, rec = P.run_scenario(sx, proto, transport, user_headers=True)
    if sched['stage'] == 'unserializable' and P.out_of(proto) in ('json', 'jsonp'):
        sx.outside('lazily serialising protocols fail while the body is iterated; outside the stated schedule')
    problems = O.check_wsgi(sched, rec, allow_eager_close=True)
    sx.observe('problems', problems)
    return not problems


@harness('C13', params=PARAMS, label=lambda p: '%s %s' % p,
         functions=['spyne.server.wsgi.WsgiApplication.__finalize', 'spyne.server.wsgi.WsgiApplication.handle_rpc',
                    'spyne.server.wsgi.WsgiApplication.handle_error', 'spyne.context.MethodContext.close'],
         bounds={'schedule': 'as wsgi_protocol'})
def wsgi_context_lifetime(sx, p):
    """the request context is not closed before the response body has been handed over"""
    proto, transport = p
    sched, rec = P.run_scenario(sx, proto, transport)
    if sched['stage'] == 'unserializable' and P.out_of(proto) in ('json', 'jsonp'):
        sx.outside('lazily serialising protocols fail while the body is iterated; outside the stated schedule')
    problems = [x for x in O.check_wsgi(sched, rec) if x.startswith('context closed after')]
    sx.observe('problems', problems)
    return not problems


@harness('C13', params=['wsgi-chunked', 'wsgi-unchunked'],
         functions=['spyne.server.wsgi.WsgiApplication.handle_wsdl_request', 'spyne.server.wsgi.WsgiApplication.is_wsdl_request'],
         bounds={'schedule': '?wsdl and .wsdl requests, the first one of an application (which builds the document) or a later one; a "wsdl" listener that leaves the document alone, extends it '
                             'or truncates it (the documented use of that hook)'})
def wsdl_request(sx, transport):
    """the ?wsdl response obeys the same protocol: one start_response, bytes chunks, Content-Length = body size"""
    import io
    from spyne.server.wsgi import WsgiApplication
    # a fresh application on the first request (the one that builds the document), the shared one on later requests
    which = sx.choose('document', ['built by this request', 'cached'])
    app = P.build('soap11') if which == 'built by this request' else P.get_app('soap11')
    w = WsgiApplication(app, chunked=(transport == 'wsgi-chunked'))
    how = sx.choose('listener', ['none', 'extend', 'truncate'])
    spelling = sx.choose('spelling', ['?wsdl', '.wsdl'])

    def on_wsdl(ctx):
        if how == 'extend':
            ctx.transport.wsdl = ctx.transport.wsdl + b'<!-- patched by listener -->'
        elif how == 'truncate':
            ctx.transport.wsdl = ctx.transport.wsdl[:-7]
    w.event_manager.add_listener('wsdl', on_wsdl)
    environ = {'REQUEST_METHOD': 'GET', 'PATH_INFO': '/svc' + ('.wsdl' if spelling == '.wsdl' else '/'),
               'QUERY_STRING': 'wsdl' if spelling == '?wsdl' else '', 'SERVER_NAME': 'localhost', 'SERVER_PORT': '80',
               'wsgi.url_scheme': 'http', 'wsgi.input': io.BytesIO(b''), 'CONTENT_LENGTH': '0'}
    rec = P.Record()
    closed = []
    counting = lambda ctx: closed.append(len(rec.start_response))
    app.event_manager.add_listener('method_context_closed', counting)

    def start_response(status, headers, exc_info=None):
        rec.start_response.append((status, headers, len(rec.chunks)))
    try:
        it = w(environ, start_response)
        rec.extra['iter_started_with_start_response'] = len(rec.start_response)
        for c in it:
            rec.chunks.append(c)
    finally:
        app.event_manager.handlers['method_context_closed'].remove(counting)
    rec.extra['closed'] = [len(rec.chunks)] * len(closed)     # closed exactly once ...
    problems = O.check_wsgi({'proto': 'soap11'}, rec, allow_eager_close=True)
    if any(n == 0 for n in closed):
        problems.append('context closed before start_response')        # ... and not before the response was started
    if not rec.start_response or not rec.start_response[0][0].startswith('200'):
        problems.append('wsdl request not answered with 200')
    sx.observe('problems', problems)
    return not problems


@harness('C13', params=['wsgi-chunked', 'wsgi-unchunked'],
         functions=['spyne.server.wsgi.WsgiApplication.handle_wsdl_request'],
         bounds={'schedule': '?wsdl requests that cannot be answered: the application publishes no WSDL document, or building it raises '
                             '(fault injected into the interface document builder)'})
def wsdl_request_failures(sx, transport):
    """a ?wsdl request that fails is still a PEP 3333 response - one start_response with a non-2xx status, bytes chunks - and
    its context is closed once"""
    import io
    from spyne.server.wsgi import WsgiApplication
    app = P.get_app('soap11')
    w = WsgiApplication(app, chunked=(transport == 'wsgi-chunked'))
    failure = sx.choose('failure', ['no wsdl document', 'builder raises'])
    # (the interface documents belong to the application: every change is undone below)
    docs, orig = w.doc, w.doc.wsdl11

    class _Failing(object):
        def get_interface_document(self):
            return None

        def build_interface_document(self, url):
            raise RuntimeError('cannot build 4711')
    docs.wsdl11 = None if failure == 'no wsdl document' else _Failing()
    w._wsdl = None
    environ = {'REQUEST_METHOD': 'GET', 'PATH_INFO': '/svc/', 'QUERY_STRING': 'wsdl', 'SERVER_NAME': 'localhost', 'SERVER_PORT': '80',
               'wsgi.url_scheme': 'http', 'wsgi.input': io.BytesIO(b''), 'CONTENT_LENGTH': '0'}
    rec = P.Record()
    closed = []
    counting = lambda ctx: closed.append(len(rec.chunks))
    app.event_manager.add_listener('method_context_closed', counting)

    def start_response(status, headers, exc_info=None):
        rec.start_response.append((status, headers, len(rec.chunks)))
    try:
        it = w(environ, start_response)
        rec.extra['iter_started_with_start_response'] = len(rec.start_response)
        for c in it:
            rec.chunks.append(c)
        if hasattr(it, 'close'):
            it.close()
    except Exception as e:
        rec.escaped = e
    finally:
        app.event_manager.handlers['method_context_closed'].remove(counting)
        docs.wsdl11 = orig
    rec.extra['closed'] = closed
    problems = O.check_wsgi({'proto': 'soap11'}, rec, allow_eager_close=True)
    if rec.start_response and rec.start_response[0][0].startswith('2'):
        problems.append('a failed wsdl request answered with %s' % rec.start_response[0][0])
    if any(isinstance(c, bytes) and b'4711' in c for c in rec.chunks):
        problems.append('the text of the exception is in the response')
    sx.observe('problems', problems)
    return not problems


# ---------------------------------------------------------------- streaming results and client aborts
from spyne import Application, Service, rpc
from spyne.model.primitive import Integer
from spyne.model.complex import Iterable as SpIterable
from spyne.protocol.json import JsonDocument
from spyne.protocol.http import HttpRpc
from spyne.protocol.xml import XmlDocument

GEN = {}


class StreamSvc(Service):
    @rpc(Integer, _returns=SpIterable(Integer))
    def count(ctx, n):
        GEN['started'] = GEN.get('started', 0) + 1
        if GEN.get('preset') and hasattr(ctx.transport, 'resp_headers'):
            # user code announces a length of its own before the first item: what is sent must still be consistent
            ctx.transport.resp_headers['Content-Length'] = '4096'
        for i in range(n or 0):
            yield i


SAPPS = {}


@harness('C13', params=[(pair, tr) for pair in ('http-json', 'json-json', 'xml-xml') for tr in ('wsgi-chunked', 'wsgi-unchunked')],
         label=lambda p: '%s %s' % p,
         functions=['spyne.server.wsgi.WsgiApplication.handle_rpc', 'spyne.server.wsgi.WsgiApplication.__finalize'],
         bounds={'schedule': 'generator result yielding 0..2 items; client consumes the whole body or closes the iterator '
                             'after 0 or 1 chunks'})
def streaming_and_abort(sx, p):
    """generator results: same response protocol (one start_response before the body, bytes chunks, 200 for a call that
    succeeds), the user generator is started once, and an aborting client does not cause a second close"""
    import io
    from spyne.server.wsgi import WsgiApplication
    pair, transport = p
    if pair not in SAPPS:
        inp, outp = {'http-json': (HttpRpc(), JsonDocument()), 'json-json': (JsonDocument(), JsonDocument()),
                     'xml-xml': (XmlDocument(), XmlDocument())}[pair]
        SAPPS[pair] = Application([StreamSvc], 'tns', in_protocol=inp, out_protocol=outp)
    app = SAPPS[pair]
    w = WsgiApplication(app, chunked=(transport == 'wsgi-chunked'))
    n = sx.choose('n_items', [2, 0, 1])
    abort = sx.choose('abort_after', [None, 0, 1])
    GEN.clear()
    GEN['preset'] = sx.choose('user_sets_content_length', [False, True])
    body = {'http-json': b'', 'json-json': ('{"count": {"n": %d}}' % n).encode(),
            'xml-xml': ('<count xmlns="tns"><n>%d</n></count>' % n).encode()}[pair]
    environ = {'REQUEST_METHOD': 'POST', 'PATH_INFO': '/', 'QUERY_STRING': '', 'SERVER_NAME': 'localhost',
               'SERVER_PORT': '80', 'wsgi.url_scheme': 'http', 'wsgi.input': io.BytesIO(body),
               'CONTENT_LENGTH': str(len(body)), 'CONTENT_TYPE': 'text/plain'}
    if pair == 'http-json':
        environ.update(REQUEST_METHOD='GET', PATH_INFO='/count', QUERY_STRING='n=%d' % n)
    rec = P.Record()
    closed = []
    app.event_manager.add_listener('method_context_closed', closed.append)

    def start_response(status, headers, exc_info=None):
        rec.start_response.append((status, headers, len(rec.chunks)))
    try:
        it = w(environ, start_response)
        rec.extra['iter_started_with_start_response'] = len(rec.start_response)
        for chunk in it:
            if abort is not None and len(rec.chunks) >= abort:
                break
            rec.chunks.append(chunk)
        if hasattr(it, 'close'):
            it.close()
    except Exception as e:
        rec.escaped = e
    finally:
        app.event_manager.handlers['method_context_closed'].remove(closed.append)
    rec.extra['closed'] = [len(rec.chunks)] * len(closed)
    problems = O.check_wsgi({'proto': pair}, rec, allow_eager_close=True)
    problems = [x for x in problems if not (abort is not None and x.startswith('Content-Length'))]
    if rec.start_response and not rec.start_response[0][0].startswith('200'):
        problems.append('status %s for a successful streaming call' % rec.start_response[0][0])
    if GEN.get('started', 0) > 1:
        problems.append('user generator started %d times' % GEN['started'])
    if abort is None and rec.escaped is None:
        data = b''.join(rec.chunks)
        want = list(range(n))
        import json as _j
        try:
            if pair.endswith('json'):
                got = _j.loads(data.decode('utf8'))
                if got != want and not (n == 0 and got in (None, [], {})):
                    problems.append('streamed body denotes %r, expected %r' % (got, want))
            else:
                from lxml import etree
                got = [int(e.text) for e in etree.fromstring(data).iter() if e.text and e.text.strip().isdigit()]
                if got != want:
                    problems.append('streamed body denotes %r, expected %r' % (got, want))
        except Exception as e:
            problems.append('unparsable streamed body: %r' % (e,))
    sx.observe('problems', problems)
    return not problems


# ---------------------------------------------------------------- redirects
REDIRECT_APPS = {}
RBEH = {}


def _redirect_app(proto):
    if proto not in REDIRECT_APPS:
        from spyne import Application, Service, rpc
        from spyne.model.primitive import Integer
        from spyne.protocol.http import HttpRpc
        from spyne.protocol.json import JsonDocument
        from spyne.protocol.soap import Soap11
        from spyne.server.http import HttpRedirect
        from spyne.const import http as H

        class R(Service):
            @rpc(Integer, _returns=Integer)
            def go(ctx, a):
                code = {301: H.HTTP_301, 302: H.HTTP_302, 303: H.HTTP_303, 307: H.HTTP_307}[RBEH['code']]
                if RBEH['how'] == 'raise':
                    raise HttpRedirect(ctx, 'http://elsewhere.example/x?y=1', code=code)
                ctx.transport.respond(code, location='http://elsewhere.example/x?y=1')
                return a
        inp, outp = {'http': (HttpRpc(), JsonDocument()), 'json': (JsonDocument(), JsonDocument()),
                     'soap11': (Soap11(), Soap11())}[proto]
        REDIRECT_APPS[proto] = Application([R], 'tns', in_protocol=inp, out_protocol=outp)
    return REDIRECT_APPS[proto]


@harness('C13', params=[(p, t) for p in ('http', 'json', 'soap11') for t in ('wsgi-chunked', 'wsgi-unchunked')], label=lambda p: '%s %s' % p,
         functions=['spyne.server.http.HttpTransportContext.respond', 'spyne.server.http.HttpRedirect.do_redirect',
                    'spyne.server.wsgi.WsgiApplication.handle_rpc'],
         bounds={'schedule': 'a method that answers with a redirect - raise HttpRedirect or ctx.transport.respond() - with status '
                             '301 / 302 / 303 / 307; three protocol pairs, chunked on/off'})
def redirect_responses(sx, p):
    """a redirect obeys the response protocol like everything else: one start_response with str status and headers (Location
    among them) before the body, bytes chunks only, Content-Length (when present) equal to the body size"""
    import io
    from spyne.server.wsgi import WsgiApplication
    proto, transport = p
    RBEH['code'] = sx.choose('code', [302, 301, 303, 307])
    RBEH['how'] = sx.choose('how', ['raise', 'respond'])
    app = _redirect_app(proto)
    body, env = {'http': (b'', {'REQUEST_METHOD': 'GET', 'PATH_INFO': '/go', 'QUERY_STRING': 'a=1'}),
                 'json': (b'{"go": {"a": 1}}', {}),
                 'soap11': (('<s:Envelope xmlns:s="%s"><s:Body><go xmlns="tns"><a>1</a></go></s:Body></s:Envelope>' % P.SOAP_ENV).encode(),
                            {'CONTENT_TYPE': 'text/xml'})}[proto]
    environ = {'REQUEST_METHOD': 'POST', 'PATH_INFO': '/', 'QUERY_STRING': '', 'SERVER_NAME': 'localhost', 'SERVER_PORT': '80',
               'wsgi.url_scheme': 'http', 'wsgi.input': io.BytesIO(body), 'CONTENT_LENGTH': str(len(body)), 'CONTENT_TYPE': 'text/plain'}
    environ.update(env)
    rec = P.Record()
    closed = []
    w = WsgiApplication(app, chunked=(transport == 'wsgi-chunked'))
    app.event_manager.add_listener('method_context_closed', lambda ctx: closed.append(len(rec.chunks)))

    def start_response(status, headers, exc_info=None):
        rec.start_response.append((status, headers, len(rec.chunks)))
    try:
        it = w(environ, start_response)
        rec.extra['iter_started_with_start_response'] = len(rec.start_response)
        for c in it:
            rec.chunks.append(c)
        if hasattr(it, 'close'):
            it.close()
    except Exception as e:
        rec.escaped = e
    finally:
        hs = app.event_manager.handlers.get('method_context_closed')
        for h in list(hs or ()):
            if getattr(h, '__name__', '') == '<lambda>':
                hs.remove(h)
    rec.extra['closed'] = closed
    problems = O.check_wsgi({'proto': proto}, rec)
    if not problems:
        status, headers, _ = rec.start_response[0]
        if not status.startswith(str(RBEH['code'])):
            problems.append('status %r for a %d redirect' % (status, RBEH['code']))
        if [v for k, v in headers if k == 'Location'] != ['http://elsewhere.example/x?y=1']:
            problems.append('Location header %r' % ([v for k, v in headers if k == 'Location'],))
    sx.observe('problems', problems)
    return not problems


@harness('C13', params=[(pair, t) for pair in ('json-json', 'xml-xml') for t in ('wsgi-chunked', 'wsgi-unchunked')], label=lambda p: '%s %s' % p,
         functions=['spyne.server.wsgi._ClosingIterator.close', 'spyne.server.wsgi._ClosingIterator.__next__',
                    'spyne.context.MethodContext.close'],
         bounds={'schedule': 'a method_context_closed or wsgi_close listener that raises; the server iterates the body to the end '
                             '(or aborts after 0 / 1 chunks) and then calls close() on the iterable as PEP 3333 requires'})
def close_once_with_raising_listener(sx, p):
    """the request context is closed exactly once even when a clean-up listener raises: the server's mandatory close()
    call after the failed iteration does not close it a second time"""
    import io
    from spyne.server.wsgi import WsgiApplication
    pair, transport = p
    if pair not in SAPPS:
        inp, outp = {'json-json': (JsonDocument(), JsonDocument()), 'xml-xml': (XmlDocument(), XmlDocument())}[pair]
        SAPPS[pair] = Application([StreamSvc], 'tns', in_protocol=inp, out_protocol=outp)
    app = SAPPS[pair]
    which = sx.choose('raising_listener', ['method_context_closed', 'wsgi_close'])
    abort = sx.choose('abort_after', [None, 0, 1])
    w = WsgiApplication(app, chunked=(transport == 'wsgi-chunked'))
    GEN.clear()
    closes = []

    def counting(ctx):
        closes.append(1)

    def raising(ctx):
        raise RuntimeError('clean-up hook failed')
    app.event_manager.add_listener('method_context_closed', counting)
    if which == 'method_context_closed':
        app.event_manager.add_listener('method_context_closed', raising)
    else:
        w.event_manager.add_listener('wsgi_close', raising)
    body = {'json-json': b'{"count": {"n": 2}}', 'xml-xml': b'<count xmlns="tns"><n>2</n></count>'}[pair]
    environ = {'REQUEST_METHOD': 'POST', 'PATH_INFO': '/', 'QUERY_STRING': '', 'SERVER_NAME': 'localhost',
               'SERVER_PORT': '80', 'wsgi.url_scheme': 'http', 'wsgi.input': io.BytesIO(body),
               'CONTENT_LENGTH': str(len(body)), 'CONTENT_TYPE': 'text/plain'}
    it = None
    try:
        try:
            it = w(environ, lambda s, h, e=None: None)
            got = 0
            for chunk in it:
                if abort is not None and got >= abort:
                    break
                got += 1
        except RuntimeError:
            pass                      # the hook's failure surfaces to the server ...
        finally:
            if it is not None and hasattr(it, 'close'):
                try:
                    it.close()        # ... which then calls close(), as it must
                except RuntimeError:
                    pass
    finally:
        hs = app.event_manager.handlers['method_context_closed']
        for h in (counting, raising):
            if h in hs:
                hs.remove(h)
    sx.observe('closes', len(closes))
    return len(closes) == 1


# ---------------------------------------------------------------- generator methods that fail
@harness('C13', params=[(pr, t) for pr in ('json', 'xml', 'soap11') for t in ('wsgi-chunked', 'wsgi-unchunked')], label=lambda p: '%s %s' % p,
         functions=['spyne.server.wsgi.WsgiApplication.handle_rpc', 'spyne.server.wsgi.WsgiApplication.handle_error'],
         bounds={'schedule': 'a generator method that yields 0, 1 or 2 items and then raises a non-Fault exception, raises a Fault, or '
                             'finishes normally'})
def generator_failures(sx, p):
    """whenever a generator method fails - before its first item or later - the response still obeys the protocol: nothing
    escapes the WSGI callable, start_response is called once before the body with a non-2xx status, bytes chunks only, the
    context is closed once"""
    import io
    from spyne.server.wsgi import WsgiApplication
    from harness import C09_wire as W
    proto, transport = p
    kind = sx.choose('kind', ['exception', 'fault', 'none'])
    n = sx.choose('items_before', [0, 1, 2])
    if proto not in W.LAZY_APPS:
        Pc = {'json': W.JsonDocument, 'xml': W.XmlDocument, 'soap11': W.Soap11}[proto]
        W.LAZY_APPS[proto] = W.Application([W.LazySvc], 'tns', in_protocol=Pc(), out_protocol=Pc())
    app = W.LAZY_APPS[proto]
    W.LAZY['kind'] = kind
    body, ctype = W.LAZY_REQ[proto](n)
    environ = {'REQUEST_METHOD': 'POST', 'PATH_INFO': '/', 'QUERY_STRING': '', 'SERVER_NAME': 'localhost', 'SERVER_PORT': '80',
               'wsgi.url_scheme': 'http', 'wsgi.input': io.BytesIO(body), 'CONTENT_LENGTH': str(len(body)), 'CONTENT_TYPE': ctype}
    rec = P.Record()
    closed = []
    counting = lambda ctx: closed.append(len(rec.chunks))
    app.event_manager.add_listener('method_context_closed', counting)

    def start_response(status, headers, exc_info=None):
        rec.start_response.append((status, headers, len(rec.chunks)))
    try:
        it = WsgiApplication(app, chunked=(transport == 'wsgi-chunked'))(environ, start_response)
        rec.extra['iter_started_with_start_response'] = len(rec.start_response)
        for c in it:
            rec.chunks.append(c)
        if hasattr(it, 'close'):
            it.close()
    except Exception as e:
        rec.escaped = e
    finally:
        app.event_manager.handlers['method_context_closed'].remove(counting)
    rec.extra['closed'] = closed
    problems = O.check_wsgi({'proto': proto}, rec)
    if not problems:
        st = rec.start_response[0][0]
        if kind == 'none' and not st.startswith('200'):
            problems.append('status %s for a successful call' % st)
        if kind != 'none' and st.startswith('2'):
            problems.append('status %s for a failed call' % st)
    sx.observe('problems', problems)
    return not problems


@harness('C13', params=[(pr, t) for pr in ('json', 'xml', 'soap11') for t in ('wsgi-chunked', 'wsgi-unchunked')], label=lambda p: '%s %s' % p,
         functions=['spyne.server.wsgi.WsgiApplication.handle_rpc', 'spyne.server.wsgi.WsgiApplication.handle_error'],
         bounds={'schedule': 'a wsgi_return / wsgi_exception listener on the transport that replaces ctx.out_string by a list with 0, 1 or 40 '
                             'more bytes in front (or leaves it alone); a successful call and a call that ends in a Fault'})
def response_rewritten_by_listener(sx, p):
    """the transport's wsgi_return / wsgi_exception hooks may rewrite the response body: whatever they leave in ctx.out_string is
    what is sent, and a Content-Length header, when sent, counts those bytes"""
    import io
    from spyne.server.wsgi import WsgiApplication
    from harness import C09_wire as W
    proto, transport = p
    kind = sx.choose('kind', ['none', 'fault'])
    extra = sx.choose('extra_bytes', [None, 0, 1, 40])
    if proto not in W.LAZY_APPS:
        Pc = {'json': W.JsonDocument, 'xml': W.XmlDocument, 'soap11': W.Soap11}[proto]
        W.LAZY_APPS[proto] = W.Application([W.LazySvc], 'tns', in_protocol=Pc(), out_protocol=Pc())
    app = W.LAZY_APPS[proto]
    W.LAZY['kind'] = kind
    body, ctype = W.LAZY_REQ[proto](0 if kind == 'fault' else 2)
    environ = {'REQUEST_METHOD': 'POST', 'PATH_INFO': '/', 'QUERY_STRING': '', 'SERVER_NAME': 'localhost', 'SERVER_PORT': '80',
               'wsgi.url_scheme': 'http', 'wsgi.input': io.BytesIO(body), 'CONTENT_LENGTH': str(len(body)), 'CONTENT_TYPE': ctype}
    rec = P.Record()
    closed = []
    counting = lambda ctx: closed.append(len(rec.chunks))
    app.event_manager.add_listener('method_context_closed', counting)
    w = WsgiApplication(app, chunked=(transport == 'wsgi-chunked'))
    seen = []

    def rewrite(ctx):
        seen.append(1)
        if extra is not None:
            ctx.out_string = [b' ' * extra] + [c for c in ctx.out_string]
    w.event_manager.add_listener('wsgi_return', rewrite)
    w.event_manager.add_listener('wsgi_exception', rewrite)

    def start_response(status, headers, exc_info=None):
        rec.start_response.append((status, headers, len(rec.chunks)))
    try:
        it = w(environ, start_response)
        rec.extra['iter_started_with_start_response'] = len(rec.start_response)
        for c in it:
            rec.chunks.append(c)
        if hasattr(it, 'close'):
            it.close()
    except Exception as e:
        rec.escaped = e
    finally:
        app.event_manager.handlers['method_context_closed'].remove(counting)
    rec.extra['closed'] = closed
    problems = O.check_wsgi({'proto': proto}, rec)
    if not problems and seen and extra is not None:
        sent = b''.join(rec.chunks)
        if not sent.startswith(b' ' * extra) or sent[extra:extra + 1] == b' ':
            problems.append('the body left by the listener is not the body sent')
    sx.observe('problems', problems)
    return not problems

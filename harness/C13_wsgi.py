"""C13 — PEP 3333 response protocol and context lifetime of the WSGI callable, under the fault
schedule of pipeline.py."""
from symx.api import harness
from harness import pipeline as P, pipeline_oracles as O

PARAMS = [(proto, tr) for proto in ('json', 'xml', 'soap11', 'http-json') for tr in ('wsgi-chunked', 'wsgi-unchunked')]


@harness('C13', params=PARAMS, label=lambda p: '%s %s' % p,
         functions=['spyne.server.wsgi.WsgiApplication.__call__', 'spyne.server.wsgi.WsgiApplication.handle_rpc',
                    'spyne.server.wsgi.WsgiApplication.handle_error', 'spyne.server.wsgi.WsgiApplication.__finalize',
                    'spyne.server._base.ServerBase.finalize_context', 'spyne.context.MethodContext.close'],
         bounds={'schedule': 'as C14 (8 request kinds x 9 failing stages x Fault/non-Fault x listener level), '
                             'chunked on/off, 4 protocol pairs'})
def wsgi_protocol(sx, p):
    """start_response once, before the body, str status/headers, bytes chunks, Content-Length = body size,
    context closed exactly once and not before the body has been handed over"""
    proto, transport = p
    sched, rec = P.run_scenario(sx, proto, transport)
    if sched['stage'] == 'unserializable' and P.out_of(proto) == 'json':
        sx.outside('lazily serialising protocols fail while the body is iterated; outside the stated schedule')
    problems = O.check_wsgi(sched, rec, allow_eager_close=True)
    sx.observe('problems', problems)
    return not problems


@harness('C13', params=PARAMS, label=lambda p: '%s %s' % p,
         functions=['spyne.server.wsgi.WsgiApplication.__finalize', 'spyne.server.wsgi.WsgiApplication.handle_rpc',
                    'spyne.server.wsgi.WsgiApplication.handle_error', 'spyne.context.MethodContext.close'],
         bounds={'schedule': 'as wsgi_protocol'})
def wsgi_context_lifetime(sx, p):
    """the request context is not closed before the response body has been handed over"""
    proto, transport = p
    sched, rec = P.run_scenario(sx, proto, transport)
    if sched['stage'] == 'unserializable' and P.out_of(proto) == 'json':
        sx.outside('lazily serialising protocols fail while the body is iterated; outside the stated schedule')
    problems = [x for x in O.check_wsgi(sched, rec) if x.startswith('context closed after')]
    sx.observe('problems', problems)
    return not problems


@harness('C13', params=['wsgi-chunked', 'wsgi-unchunked'],
         functions=['spyne.server.wsgi.WsgiApplication.handle_wsdl_request', 'spyne.server.wsgi.WsgiApplication.is_wsdl_request'],
         bounds={'schedule': '?wsdl and .wsdl requests; a "wsdl" listener that leaves the document alone, extends it '
                             'or truncates it (the documented use of that hook)'})
def wsdl_request(sx, transport):
    """the ?wsdl response obeys the same protocol: one start_response, bytes chunks, Content-Length = body size"""
    import io
    from spyne.server.wsgi import WsgiApplication
    app = P.get_app('soap11')
    w = WsgiApplication(app, chunked=(transport == 'wsgi-chunked'))
    how = sx.choose('listener', ['none', 'extend', 'truncate'])
    spelling = sx.choose('spelling', ['?wsdl', '.wsdl'])

    def on_wsdl(ctx):
        if how == 'extend':
            ctx.transport.wsdl = ctx.transport.wsdl + b'<!-- patched by listener -->'
        elif how == 'truncate':
            ctx.transport.wsdl = ctx.transport.wsdl[:-7]
    w.event_manager.add_listener('wsdl', on_wsdl)
    environ = {'REQUEST_METHOD': 'GET', 'PATH_INFO': '/svc' + ('.wsdl' if spelling == '.wsdl' else '/'),
               'QUERY_STRING': 'wsdl' if spelling == '?wsdl' else '', 'SERVER_NAME': 'localhost', 'SERVER_PORT': '80',
               'wsgi.url_scheme': 'http', 'wsgi.input': io.BytesIO(b''), 'CONTENT_LENGTH': '0'}
    rec = P.Record()

    def start_response(status, headers, exc_info=None):
        rec.start_response.append((status, headers, len(rec.chunks)))
    it = w(environ, start_response)
    rec.extra['iter_started_with_start_response'] = len(rec.start_response)
    for c in it:
        rec.chunks.append(c)
    rec.extra['closed'] = [len(rec.chunks)]     # context lifetime is not judged here
    problems = O.check_wsgi({'proto': 'soap11'}, rec, allow_eager_close=True)
    if not rec.start_response or not rec.start_response[0][0].startswith('200'):
        problems.append('wsdl request not answered with 200')
    sx.observe('problems', problems)
    return not problems

"""C10 — concrete malformed / ill-typed / truncated requests through the real parsers (these ride
along the fault-schedule pipeline; concrete execution, labelled as such in the evidence)."""
from symx.api import harness
from harness import pipeline as P, pipeline_oracles as O

PARAMS = [(proto, tr) for proto in ('json', 'xml', 'soap11', 'http-json', 'http-soap11', 'soap11-json')
          for tr in ('server', 'wsgi-chunked') if not (P.in_of(proto) == 'http' and tr == 'server')]


@harness('C10', params=PARAMS, label=lambda p: '%s %s' % p,
         functions=['spyne.server._base.ServerBase.generate_contexts', 'spyne.server._base.ServerBase.get_in_object',
                    'spyne.protocol.json.JsonDocument.create_in_document',
                    'spyne.protocol.xml.XmlDocument.create_in_document',
                    'spyne.protocol.soap.soap11.Soap11.create_in_document',
                    'spyne.protocol.dictdoc._base.DictDocument.decompose_incoming_envelope'],
         bounds={'requests': 'seven concrete malformed request kinds per protocol (truncated, empty, wrong root, '
                             'unknown method, out-of-range argument, wrong kind, invalid UTF-8 with declared charset)'})
def hostile_requests(sx, p):
    proto, transport = p
    sched, rec = P.run_scenario(sx, proto, transport)
    if sched['request'] == 'valid':
        sx.outside('valid requests are the subject of C14/C09')
    problems = O.check_hostile(sched, rec)
    sx.observe('problems', problems)
    return not problems

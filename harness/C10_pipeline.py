"""C10 — concrete malformed / ill-typed / truncated requests through the real parsers (these ride
along the fault-schedule pipeline; concrete execution, labelled as such in the evidence)."""
from symx.api import harness
from harness import pipeline as P, pipeline_oracles as O

PARAMS = [(proto, tr) for proto in ('json', 'xml', 'soap11', 'http-json', 'http-soap11', 'soap11-json', 'json-jsonp')
          for tr in ('server', 'wsgi-chunked') if not (P.in_of(proto) == 'http' and tr == 'server')]


@harness('C10', params=PARAMS, label=lambda p: '%s %s' % p,
         functions=['spyne.server._base.ServerBase.generate_contexts', 'spyne.server._base.ServerBase.get_in_object',
                    'spyne.protocol.json.JsonDocument.create_in_document',
                    'spyne.protocol.xml.XmlDocument.create_in_document',
                    'spyne.protocol.soap.soap11.Soap11.create_in_document',
                    'spyne.protocol.dictdoc._base.DictDocument.decompose_incoming_envelope'],
         bounds={'requests': 'seven concrete malformed request kinds per protocol (truncated, empty, wrong root, '
                             'unknown method, out-of-range argument, wrong kind, invalid UTF-8 with declared charset)'})
def hostile_requests(sx, p):
    proto, transport = p
    sched, rec = P.run_scenario(sx, proto, transport)
    if sched['request'] == 'valid':
        sx.outside('valid requests are the subject of C14/C09')
    problems = O.check_hostile(sched, rec)
    sx.observe('problems', problems)
    return not problems


VALID = {
    'json': b'{"work": {"a": 5, "s": "x\\u00e9y"}}',
    'xml': b'<work xmlns="tns"><a>5</a><s>x&amp;y</s></work>',
    'soap11': (b'<soap:Envelope xmlns:soap="http://schemas.xmlsoap.org/soap/envelope/"><soap:Body>'
               b'<work xmlns="tns"><a>5</a><s>x</s></work></soap:Body></soap:Envelope>'),
}


@harness('C10', params=[(proto, tr, lo) for proto in sorted(VALID) for tr in ('server', 'wsgi-chunked')
                        for lo in range(0, 160, 40)],
         label=lambda p: '%s %s cut>=%d' % p,
         functions=['spyne.protocol.json.JsonDocument.create_in_document', 'spyne.protocol.xml.XmlDocument.create_in_document',
                    'spyne.protocol.soap.soap11.Soap11.create_in_document', 'spyne.protocol.soap.soap11._from_soap',
                    'spyne.protocol.dictdoc._base.DictDocument.decompose_incoming_envelope'],
         bounds={'requests': 'every proper prefix of one valid request per protocol (concrete enumeration of all cut positions)'})
def truncated_prefixes(sx, p):
    """every prefix truncation of a valid request ends in a normal response or a Client fault"""
    proto, transport, lo = p
    body = VALID[proto]
    cuts = [c for c in range(lo, lo + 40) if c < len(body)]
    if not cuts:
        sx.outside('no cut positions in this shard')
    cut = sx.choose('cut', cuts)
    app = P.get_app(proto)
    rec = P.Record()
    del P.TRACE[:]
    P.BEHAVE.clear()
    env = {'CONTENT_TYPE': 'text/xml'} if proto == 'soap11' else {}
    if transport == 'server':
        P._run_server(app, body[:cut], env, rec)
    else:
        P._run_wsgi(app, body[:cut], env, rec, chunked=True)
    rec.trace = list(P.TRACE)
    problems = O.check_hostile({'proto': proto, 'transport': transport, 'request': 'truncated', 'stage': 'none',
                                'level': None}, rec)
    sx.observe('problems', problems)
    return not problems


FALSY_BODIES = [b'{"work": {}}', b'{"work": []}', b'{"work": ""}', b'{"work": 0}', b'{"work": false}', b'{"work": null}',
                b'{"small": {}}', b'{"small": []}']


@harness('C10', params=['server', 'wsgi-chunked'],
         functions=['spyne.protocol.dictdoc.hier.HierDictDocument.deserialize',
                    'spyne.protocol.dictdoc.hier.HierDictDocument._doc_to_object'],
         bounds={'requests': 'a registered method whose argument container is empty or a falsy scalar (8 concrete documents)'})
def json_falsy_argument_containers(sx, transport):
    """an empty or falsy argument container is either served (arguments absent) or refused with a Client fault; it is
    never turned into a Server fault"""
    body = sx.choose('body', FALSY_BODIES)
    app = P.get_app('json')
    rec = P.Record()
    del P.TRACE[:]
    P.BEHAVE.clear()
    if transport == 'server':
        P._run_server(app, body, {}, rec)
    else:
        P._run_wsgi(app, body, {}, rec, chunked=True)
    problems = []
    if rec.escaped is not None:
        problems.append('exception escaped: %r' % (rec.escaped,))
    resp = P.parse_response('json', rec.body)
    if resp[0] == 'fault' and not (resp[1] or '').startswith('Client'):
        problems.append('fault code %r for an empty argument container' % (resp[1],))
    if resp[0] == 'unparsed':
        problems.append('unparsable response')
    if rec.start_response and rec.start_response[0][0][:1] not in ('2', '4'):
        problems.append('HTTP status %r' % (rec.start_response[0][0],))
    sx.observe('problems', problems)
    return not problems


# ---------------------------------------------------------------- auxiliary methods of a faulted request
from spyne import Application, Service, rpc
from spyne.model.primitive import Integer, Unicode
from spyne.auxproc.sync import SyncAuxProc
from spyne.protocol.json import JsonDocument
from spyne.protocol.xml import XmlDocument
from spyne.protocol.soap import Soap11
from spyne.protocol.http import HttpRpc
from spyne.server.wsgi import WsgiApplication

RAN = []


class Primary(Service):
    @rpc(Unicode, Integer(ge=0, le=9, min_occurs=1, nillable=False), _returns=Integer)
    def place(ctx, who, qty):
        RAN.append('primary')
        return qty


class Audit(Service):
    __aux__ = SyncAuxProc()

    @rpc(Unicode, _returns=Integer)     # a looser signature: accepts what the primary method refuses
    def place(ctx, who):
        RAN.append('aux')
        return 0


AUX_APPS = {}
AUX_REQ = {
    'json': lambda body: (('{"place": %s}' % body).encode(), {}),
    'xml': lambda body: (('<place xmlns="tns">%s</place>' % body).encode(), {}),
    'soap11': lambda body: (('<s:Envelope xmlns:s="%s"><s:Body><place xmlns="tns">%s</place></s:Body></s:Envelope>'
                             % (P.SOAP_ENV, body)).encode(), {'CONTENT_TYPE': 'text/xml'}),
    'http': lambda body: (b'', {'REQUEST_METHOD': 'GET', 'PATH_INFO': '/place', 'QUERY_STRING': body}),
}
AUX_BODIES = {   # kind -> per protocol family argument spelling
    'valid': {'json': '{"who": "x", "qty": 5}', 'xml': '<who>x</who><qty>5</qty>', 'http': 'who=x&qty=5'},
    'out_of_range': {'json': '{"who": "x", "qty": 77}', 'xml': '<who>x</who><qty>77</qty>', 'http': 'who=x&qty=77'},
    'corrupted': {'json': '{"who": "x", "qty": "abc"}', 'xml': '<who>x</who><qty>abc</qty>', 'http': 'who=x&qty=abc'},
    'deleted': {'json': '{"who": "x"}', 'xml': '<who>x</who>', 'http': 'who=x'},
    'emptied': {'json': '{"who": "x", "qty": null}', 'xml': '<who>x</who><qty/>', 'http': 'who=x&qty='},
}


def _aux_app(proto):
    if proto not in AUX_APPS:
        inp = {'json': JsonDocument, 'xml': XmlDocument, 'soap11': Soap11, 'http': HttpRpc}[proto](validator='soft')
        outp = {'json': JsonDocument, 'xml': XmlDocument, 'soap11': Soap11, 'http': JsonDocument}[proto]()
        AUX_APPS[proto] = Application([Primary, Audit], 'tns', in_protocol=inp, out_protocol=outp)
    return AUX_APPS[proto]


@harness('C10', params=['json', 'xml', 'soap11', 'http'],
         functions=['spyne.server.wsgi.WsgiApplication.handle_error', 'spyne.server.wsgi.WsgiApplication.handle_rpc',
                    'spyne.auxproc._base.process_contexts'],
         bounds={'requests': 'a method with an auxiliary (SyncAuxProc) twin of looser signature; the mandatory bounded argument '
                             'valid / out of range / corrupted / deleted / emptied; chunked and unchunked WSGI'})
def auxiliary_functions_of_faulted_requests(sx, proto):
    """a request answered with a fault runs no user function at all - neither the primary method nor its auxiliary
    twins; a valid request runs each exactly once"""
    import io
    kind = sx.choose('request', sorted(AUX_BODIES))
    chunked = sx.choose('chunked', [True, False])
    app = _aux_app(proto)
    fam = 'xml' if proto == 'soap11' else proto
    body, env = AUX_REQ[proto](AUX_BODIES[kind][fam])
    del RAN[:]
    w = WsgiApplication(app, chunked=chunked)
    environ = {'REQUEST_METHOD': 'POST', 'PATH_INFO': '/', 'QUERY_STRING': '', 'SERVER_NAME': 'localhost',
               'SERVER_PORT': '80', 'wsgi.url_scheme': 'http', 'wsgi.input': io.BytesIO(body),
               'CONTENT_LENGTH': str(len(body)), 'CONTENT_TYPE': 'text/plain'}
    environ.update(env)
    status = []
    out = b''.join(w(environ, lambda s, h, e=None: status.append(s)))
    sx.observe('status', status)
    sx.observe('ran', list(RAN))
    if kind == 'valid':
        return status[0].startswith('200') and sorted(RAN) == ['aux', 'primary']
    if not status or status[0].startswith('200'):
        return False            # (also: a non-conformant request must be refused under soft validation)
    return RAN == []


# ---------------------------------------------------------------- hostile documents per protocol (beyond the generic kinds)
from spyne import ComplexModel
from spyne.model.primitive import Duration, DateTime, Date, Decimal as _Dec
import pytz
from spyne.model.binary import ByteArray
from spyne.model.complex import Array
from spyne.protocol.yaml import YamlDocument

HRAN = []


class Item(ComplexModel):
    __namespace__ = 'tns'
    name = Unicode
    dur = Duration
    blob = ByteArray
    amount = _Dec
    tags = Array(Unicode)
    many = Integer(max_occurs='unbounded')
    when = DateTime(as_timezone=pytz.utc)
    stamp = DateTime(dt_format='%Y/%m/%d %H:%M')
    day = Date


class HostileSvc(Service):
    @rpc(Item, _returns=Integer)
    def take(ctx, item):
        HRAN.append('take')
        return 1

    @rpc(Integer, _returns=Integer, _body_style='bare')
    def ping(ctx, a):
        HRAN.append('ping')
        return a


def _soap(inner):
    return ('<s:Envelope xmlns:s="%s">%s</s:Envelope>' % (P.SOAP_ENV, inner)).encode()


def _soapb(inner):
    return _soap('<s:Body>%s</s:Body>' % inner)


HOSTILE = {     # (input protocol, validator) -> {name: (body, wsgi env)}
    'xml': {
        'entity reference as child of an object': (b'<!DOCTYPE take [<!ENTITY x "y">]><take xmlns="tns"><item>&x;</item></take>', {}),
        'comment and PI inside an object': (b'<take xmlns="tns"><item><!-- c --><?pi x?><name>a</name></item></take>', {}),
        'child attribute named like a sibling member': (b'<take xmlns="tns"><item><tags dur="x"><string>a</string></tags></item></take>', {}),
        'attribute named like a member on the object': (b'<take xmlns="tns"><item dur="x" blob="!"><name>a</name></item></take>', {}),
        'unknown charset': (b'<take xmlns="tns"><item><name>a</name></item></take>', {'CONTENT_TYPE': 'text/xml; charset=bogus-9'}),
        'empty charset': (b'<?xml version="1.0" encoding="utf-8"?><take xmlns="tns"><item><name>a</name></item></take>', {'CONTENT_TYPE': 'text/xml; charset='}),
        'quoted empty charset': (b'<take xmlns="tns"><item><name>a</name></item></take>', {'CONTENT_TYPE': 'text/xml; charset=""'}),
        'bad base64': (b'<take xmlns="tns"><item><blob>abc</blob></item></take>', {}),
        'duration overflow': (b'<take xmlns="tns"><item><dur>P99999999999D</dur></item></take>', {}),
        'text and tail around members': (b'<take xmlns="tns">x<item>y<name>a</name>z</item>w</take>', {}),
        'nested same element': (b'<take xmlns="tns"><item><item><name>a</name></item></item></take>', {}),
        'bytes invalid for the declared encoding': (b'<?xml version="1.0" encoding="ascii"?><take xmlns="tns"><item><name>\xe9</name></item></take>', {}),
        'charset with a NUL': (b'<take xmlns="tns"><item><name>a</name></item></take>', {'CONTENT_TYPE': 'text/xml; charset=a\x00b'}),
        'charset that is not a text encoding': (b'<take xmlns="tns"><item><name>a</name></item></take>', {'CONTENT_TYPE': 'text/xml; charset=hex'}),
        'nil root': (b'<take xmlns="tns" xmlns:xsi="http://www.w3.org/2001/XMLSchema-instance" xsi:nil="true"/>', {}),
        'non-numeric Content-Length': (b'<take xmlns="tns"><item><name>a</name></item></take>', {'CONTENT_LENGTH': 'abc'}),
        'zone conversion out of range': (b'<take xmlns="tns"><item><when>0001-01-01T00:00:00+14:00</when></item></take>', {}),
        'text that does not fit the declared format': (b'<take xmlns="tns"><item><stamp>yesterday</stamp></item></take>', {}),
    },
    'soap11': {
        'empty Body': (_soap('<s:Body/>'), {}),
        'header only': (_soap('<s:Header/>'), {}),
        'two Bodies': (_soap('<s:Body/><s:Body><take xmlns="tns"/></s:Body>'), {}),
        'text only Body': (_soap('<s:Body>hello</s:Body>'), {}),
        'dangling href': (_soapb('<take xmlns="tns"><item href="#nope"/></take>'), {}),
        'self-referencing href': (_soapb('<take xmlns="tns" id="a"><item href="#a"/></take>'), {}),
        'Fault as request': (_soapb('<s:Fault xmlns:s="%s"><faultcode>x</faultcode></s:Fault>' % P.SOAP_ENV), {}),
        'unknown charset': (_soapb('<take xmlns="tns"><item><name>a</name></item></take>'), {'CONTENT_TYPE': 'text/xml; charset=bogus-9'}),
        'empty charset': (_soapb('<take xmlns="tns"><item><name>a</name></item></take>'), {'CONTENT_TYPE': 'text/xml; charset='}),
        'quoted empty charset': (_soapb('<take xmlns="tns"><item><name>a</name></item></take>'), {'CONTENT_TYPE': 'text/xml; charset=""'}),
        'bytes invalid for the declared charset': (_soapb('<take xmlns="tns"><item><name>').replace(b'</s:Body></s:Envelope>', b'') + b'\xff\xfe</name></item></take></s:Body></s:Envelope>', {'CONTENT_TYPE': 'text/xml; charset=utf-8'}),
        'cyclic href': (_soapb('<take xmlns="tns"><item id="a" href="#b"/><x id="b" href="#a"/></take>'), {}),
        'POST without a Content-Type header': (_soapb('<take xmlns="tns"><item><name>a</name></item></take>'), {'CONTENT_TYPE': None}),
        'empty Content-Type header': (_soapb('<take xmlns="tns"><item><name>a</name></item></take>'), {'CONTENT_TYPE': ''}),
        'GET with a body': (_soapb('<take xmlns="tns"><item><name>a</name></item></take>'), {'REQUEST_METHOD': 'GET'}),
        'entity reference as child of an object': (b'<!DOCTYPE x [<!ENTITY x "y">]>' + _soapb('<take xmlns="tns"><item>&x;</item></take>'), {}),
        'entity reference first in the Body': (b'<!DOCTYPE x [<!ENTITY x "y">]>' + _soapb('&x;<take xmlns="tns"><item><name>a</name></item></take>'), {}),
        'dangling href beside an id': (_soapb('<take xmlns="tns"><item id="i1" href="#zz"/></take>'), {}),
        'href into its own ancestor': (_soapb('<take xmlns="tns"><item href="#i1"/><item id="i1"><name href="#i1"/></item></take>'), {}),
        'charset that is not a text encoding': (_soapb('<take xmlns="tns"><item><name>a</name></item></take>'), {'CONTENT_TYPE': 'text/xml; charset=rot13'}),
        'non-numeric Content-Length': (_soapb('<take xmlns="tns"><item><name>a</name></item></take>'), {'CONTENT_LENGTH': '1e3'}),
    },
    'json': {
        'NaN for a decimal': (b'{"take": {"item": {"amount": NaN}}}', {}),
        'Infinity for a decimal': (b'{"take": {"item": {"amount": -Infinity}}}', {}),
        'scalar for a repeated member': (b'{"take": {"item": {"many": 5}}}', {}),
        'null for a repeated member': (b'{"take": {"item": {"many": null}}}', {}),
        'string for an array': (b'{"take": {"item": {"tags": "abc"}}}', {}),
        'number for binary': (b'{"take": {"item": {"blob": 5}}}', {}),
        'list for binary': (b'{"take": {"item": {"blob": [1, 2]}}}', {}),
        'bad base64': (b'{"take": {"item": {"blob": "abc"}}}', {}),
        'duration overflow': (b'{"take": {"item": {"dur": "P99999999999D"}}}', {}),
        'unknown charset': (b'{"take": {"item": {"name": "a"}}}', {'CONTENT_TYPE': 'application/json; charset=bogus-9'}),
        'empty charset': (b'{"take": {"item": {"name": "a"}}}', {'CONTENT_TYPE': 'application/json; charset='}),
        'quoted empty charset': (b'{"take": {"item": {"name": "a"}}}', {'CONTENT_TYPE': 'application/json; charset=""'}),
        'charset with junk': (b'{"take": {"item": {"name": "a"}}}', {'CONTENT_TYPE': 'application/json; charset=utf-8; charset=x; =;;'}),
        'bytes invalid for the declared charset': (b'{"take": {"item": {"name": "\xe9"}}}', {'CONTENT_TYPE': 'application/json; charset=ascii'}),
        'bare primitive': (b'{"ping": 5}', {}),
        'bare primitive of the wrong kind': (b'{"ping": {"a": 5}}', {}),
        'bare primitive null': (b'{"ping": null}', {}),
        'no Content-Type header': (b'{"take": {"item": {"name": "a"}}}', {'CONTENT_TYPE': None}),
        'negative infinity for an integer': (b'{"take": {"item": {"many": [-Infinity]}}}', {}),
        'huge negative exponent for an integer': (b'{"take": {"item": {"many": [-1e999]}}}', {}),
        'deep nesting': (b'[' * 5000 + b']' * 5000, {}),
        'huge exponent': (b'{"take": {"item": {"many": [1e999999]}}}', {}),
        'duplicate keys': (b'{"take": {"item": {"name": "a", "name": "b"}}, "take": 5}', {}),
        'non-numeric Content-Length': (b'{"take": {"item": {"name": "a"}}}', {'CONTENT_LENGTH': 'abc'}),
        'charset that is not a text encoding': (b'{"take": {"item": {"name": "a"}}}', {'CONTENT_TYPE': 'application/json; charset=zlib'}),
        'text that does not fit the declared format': (b'{"take": {"item": {"stamp": "yesterday"}}}', {}),
    },
    'yaml': {
        'scanner error': (b'take: {item: [}', {}),
        'control character': (b'take: \x00', {}),
        'unknown tag': (b'take: !!python/object:os.system x', {}),
        'alias bomb': (b'a: &a [x, x]\nb: &b [*a, *a]\ntake: {item: {tags: *b}}', {}),
        'tab indentation': (b'take:\n\titem: 1', {}),
        'binary for text': (b'take: {item: {name: !!binary "/w=="}}', {}),
        'unknown charset': (b'take: {item: {name: a}}', {'CONTENT_TYPE': 'text/yaml; charset=bogus-9'}),
        'empty charset': (b'take: {item: {name: a}}', {'CONTENT_TYPE': 'text/yaml; charset='}),
        'quoted empty charset': (b'take: {item: {name: a}}', {'CONTENT_TYPE': 'text/yaml; charset=""'}),
        'invalid utf-8': (b'take: {item: {name: "\xff\xfe"}}', {}),
        'bytes invalid for the declared charset': (b'take: {item: {name: "\xe9"}}', {'CONTENT_TYPE': 'text/yaml; charset=ascii'}),
        'native timestamp for a date-less member': (b'take: {item: {dur: 2001-01-01, amount: 2001-01-01 10:00:00}}', {}),
        'timestamp for text': (b'take: {item: {name: 2001-01-01}}', {}),
        'set for an array': (b'take: {item: {tags: !!set {a, b}}}', {}),
    },
}
_S12 = 'http://www.w3.org/2003/05/soap-envelope'
_soap12b = lambda inner: ('<s:Envelope xmlns:s="%s"><s:Body>%s</s:Body></s:Envelope>' % (_S12, inner)).encode()
HOSTILE['soap12'] = {
    'member the schema does not know': (_soap12b('<take xmlns="tns"><zzz/></take>'), {'CONTENT_TYPE': 'application/soap+xml'}),
    'empty Body': (('<s:Envelope xmlns:s="%s"><s:Body/></s:Envelope>' % _S12).encode(), {'CONTENT_TYPE': 'application/soap+xml'}),
    'a SOAP 1.1 envelope': (_soapb('<take xmlns="tns"><item><name>a</name></item></take>'), {'CONTENT_TYPE': 'application/soap+xml'}),
    'bad base64': (_soap12b('<take xmlns="tns"><item><blob>abc</blob></item></take>'), {'CONTENT_TYPE': 'application/soap+xml'}),
    'Fault as request': (_soap12b('<s:Fault xmlns:s="%s"><s:Code><s:Value>s:Sender</s:Value></s:Code></s:Fault>' % _S12), {'CONTENT_TYPE': 'application/soap+xml'}),
}
# the same kind of refusal leaving through another output protocol (the fault text crosses protocol families)
HOSTILE['xml-http'] = {
    'member the schema does not know': (b'<take xmlns="tns"><zzz/></take>', {}),
    'bad base64': (b'<take xmlns="tns"><item><blob>abc</blob></item></take>', {}),
    'text for a number': (b'<take xmlns="tns"><item><many>x</many></item></take>', {}),
}
HOSTILE['xml-json'] = dict(HOSTILE['xml-http'])
# a day that no calendar has, with a zone designator (the SOAP protocols read xs:date with a reader of their own)
for _fam, _wrap in (('xml', lambda x: x.encode()), ('soap11', lambda x: _soapb(x)), ('soap12', lambda x: _soap12b(x))):
    for _d in ('2021-02-30Z', '2021-13-01-05:00', '0000-01-01Z'):
        HOSTILE[_fam]['impossible day %s' % _d] = (_wrap('<take xmlns="tns"><item><day>%s</day></item></take>' % _d),
                                                   {'CONTENT_TYPE': 'application/soap+xml'} if _fam == 'soap12' else {})
# requests named by the URL, answered in XML: what is echoed of the request must be fit for an XML document
HOSTILE['http-xml'] = {
    'unknown method with a control character': (b'', {'REQUEST_METHOD': 'GET', 'PATH_INFO': '/nope\x01', 'QUERY_STRING': ''}),
    'unknown method with a NUL': (b'', {'REQUEST_METHOD': 'GET', 'PATH_INFO': '/no\x00pe', 'QUERY_STRING': ''}),
    'unknown method with non-ASCII letters': (b'', {'REQUEST_METHOD': 'GET', 'PATH_INFO': '/n\xc3\xb6pe', 'QUERY_STRING': ''}),
    'control character in a value': (b'', {'REQUEST_METHOD': 'GET', 'PATH_INFO': '/take', 'QUERY_STRING': 'item.name=%01&item.many=x'}),
}
HOSTILE['xml']['member the schema does not know'] = (b'<take xmlns="tns"><zzz/></take>', {})
HOSTILE['soap11']['member the schema does not know'] = (_soapb('<take xmlns="tns"><zzz/></take>'), {})
try:
    import msgpack as _mp
    HOSTILE['msgpack'] = {
        'key that is not UTF-8': (_mp.packb({b'\xff\xfe': {}}), {}),
        'method key of the wrong kind': (_mp.packb({5: {}}), {}),
        'two methods': (_mp.packb({'take': {}, 'ping': 1}), {}),
        'not a map': (_mp.packb([1, 2, 3]), {}),
        'truncated': (_mp.packb({'take': {'item': {'name': 'abc'}}})[:-2], {}),
        'member key that is not UTF-8': (_mp.packb({'take': {'item': {b'\xff': 1}}}), {}),
        'text that is not UTF-8': (_mp.packb({'take': {'item': {'name': b'\xff\xfe'}}}), {}),
        'extension type': (_mp.packb({'take': {'item': {'name': _mp.ExtType(5, b'x')}}}), {}),
        'timestamp extension': (b'\x81\xa4take\x81\xa4item\x81\xa4name\xd6\xff\x00\x00\x00\x01', {}),
        'trailing bytes after the document': (_mp.packb({'take': {'item': {'name': 'a'}}}) + b'\x01\x02', {}),
        'invalid UTF-8 in a str': (b'\x81\xa4take\x81\xa4item\x81\xa4name\xa2\xff\xfe', {}),
    }
except ImportError:
    pass
HOSTILE_APPS = {}


def _hostile_app(proto, validator):
    key = (proto, validator)
    if key not in HOSTILE_APPS:
        from spyne.protocol.msgpack import MessagePackDocument
        from spyne.protocol.soap import Soap12
        Pc = {'json': JsonDocument, 'xml': XmlDocument, 'soap11': Soap11, 'yaml': YamlDocument, 'msgpack': MessagePackDocument,
              'soap12': Soap12, 'xml-http': XmlDocument, 'xml-json': XmlDocument, 'http-xml': HttpRpc}[proto]
        Po = {'xml-http': HttpRpc, 'xml-json': JsonDocument, 'http-xml': XmlDocument}.get(proto, Pc)
        HOSTILE_APPS[key] = Application([HostileSvc], 'tns', in_protocol=Pc(validator=validator), out_protocol=Po())
    return HOSTILE_APPS[key]


@harness('C10', params=[(p, v) for p in sorted(HOSTILE) for v in ('soft', None) + (('lxml',) if p in ('xml', 'soap11', 'soap12', 'xml-http', 'xml-json') else ())],
         label=lambda p: '%s validator=%s' % p,
         functions=['spyne.server.wsgi.WsgiApplication.__call__', 'spyne.server._base.ServerBase.generate_contexts',
                    'spyne.protocol.xml.XmlDocument.complex_from_element', 'spyne.protocol.soap.soap11._from_soap',
                    'spyne.protocol.soap.soap11.Soap11.decompose_incoming_envelope',
                    'spyne.protocol.yaml.YamlDocument.create_in_document',
                    'spyne.protocol.dictdoc.hier.HierDictDocument._doc_to_object'],
         bounds={'requests': 'the concrete protocol-specific hostile documents listed in HOSTILE (19 XML, 22 SOAP 1.1, 5 SOAP 1.2, 26 JSON, 14 YAML, 11 MessagePack, 3 XML requests answered through HttpRpc / JSON), '
                             'each through WsgiApplication, validators soft / None (/ lxml for XML and SOAP), chunked or not'})
def hostile_documents(sx, p):
    """a structurally hostile document is answered (normally or with a Client fault) - nothing escapes the WSGI callable,
    no Server fault, and the user function does not run for a refused request"""
    import io
    proto, validator = p
    name = sx.choose('document', sorted(HOSTILE[proto]))
    chunked = sx.choose('chunked', [True, False])
    body, env = HOSTILE[proto][name]
    app = _hostile_app(proto, validator)
    del HRAN[:]
    w = WsgiApplication(app, chunked=chunked)
    environ = {'REQUEST_METHOD': 'POST', 'PATH_INFO': '/', 'QUERY_STRING': '', 'SERVER_NAME': 'localhost',
               'SERVER_PORT': '80', 'wsgi.url_scheme': 'http', 'wsgi.input': io.BytesIO(body),
               'CONTENT_LENGTH': str(len(body)), 'CONTENT_TYPE': 'text/xml' if proto in ('xml', 'soap11', 'xml-http', 'xml-json') else 'text/plain'}
    environ.update(env)
    for k in [k for k, v in environ.items() if v is None]:
        del environ[k]              # a header that is not sent at all
    status = []
    out = b''.join(w(environ, lambda s, h, e=None: status.append(s)))
    sx.observe('status', status)
    if not status:
        return False
    if status[0].startswith('200'):
        return True                 # decoded (leniently) and answered
    if HRAN:
        return False                # refused, yet the function ran
    if proto == 'soap12':
        return b':Sender' in out and b':Receiver' not in out
    if proto == 'soap11':
        return b'Client' in out and b'Server' not in out.replace(b'Server.', b'')[:0] + b'' or b'faultcode>soap11env:Client' in out \
            or b':Client' in out
    return status[0].startswith('4')

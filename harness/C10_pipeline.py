"""C10 — concrete malformed / ill-typed / truncated requests through the real parsers (these ride
along the fault-schedule pipeline; concrete execution, labelled as such in the evidence)."""
from symx.api import harness
from harness import pipeline as P, pipeline_oracles as O

PARAMS = [(proto, tr) for proto in ('json', 'xml', 'soap11', 'http-json', 'http-soap11', 'soap11-json', 'json-jsonp')
          for tr in ('server', 'wsgi-chunked') if not (P.in_of(proto) == 'http' and tr == 'server')]


@harness('C10', params=PARAMS, label=lambda p: '%s %s' % p,
         functions=['spyne.server._base.ServerBase.generate_contexts', 'spyne.server._base.ServerBase.get_in_object',
                    'spyne.protocol.json.JsonDocument.create_in_document',
                    'spyne.protocol.xml.XmlDocument.create_in_document',
                    'spyne.protocol.soap.soap11.Soap11.create_in_document',
                    'spyne.protocol.dictdoc._base.DictDocument.decompose_incoming_envelope'],
         bounds={'requests': 'seven concrete malformed request kinds per protocol (truncated, empty, wrong root, '
                             'unknown method, out-of-range argument, wrong kind, invalid UTF-8 with declared charset)'})
def hostile_requests(sx, p):
    proto, transport = p
    sched, rec = P.run_scenario(sx, proto, transport)
    if sched['request'] == 'valid':
        sx.outside('valid requests are the subject of C14/C09')
    problems = O.check_hostile(sched, rec)
    sx.observe('problems', problems)
    return not problems


VALID = {
    'json': b'{"work": {"a": 5, "s": "x\\u00e9y"}}',
    'xml': b'<work xmlns="tns"><a>5</a><s>x&amp;y</s></work>',
    'soap11': (b'<soap:Envelope xmlns:soap="http://schemas.xmlsoap.org/soap/envelope/"><soap:Body>'
               b'<work xmlns="tns"><a>5</a><s>x</s></work></soap:Body></soap:Envelope>'),
}


@harness('C10', params=[(proto, tr, lo) for proto in sorted(VALID) for tr in ('server', 'wsgi-chunked')
                        for lo in range(0, 160, 40)],
         label=lambda p: '%s %s cut>=%d' % p,
         functions=['spyne.protocol.json.JsonDocument.create_in_document', 'spyne.protocol.xml.XmlDocument.create_in_document',
                    'spyne.protocol.soap.soap11.Soap11.create_in_document', 'spyne.protocol.soap.soap11._from_soap',
                    'spyne.protocol.dictdoc._base.DictDocument.decompose_incoming_envelope'],
         bounds={'requests': 'every proper prefix of one valid request per protocol (concrete enumeration of all cut positions)'})
def truncated_prefixes(sx, p):
    """every prefix truncation of a valid request ends in a normal response or a Client fault"""
    proto, transport, lo = p
    body = VALID[proto]
    cuts = [c for c in range(lo, lo + 40) if c < len(body)]
    if not cuts:
        sx.outside('no cut positions in this shard')
    cut = sx.choose('cut', cuts)
    app = P.get_app(proto)
    rec = P.Record()
    del P.TRACE[:]
    P.BEHAVE.clear()
    env = {'CONTENT_TYPE': 'text/xml'} if proto == 'soap11' else {}
    if transport == 'server':
        P._run_server(app, body[:cut], env, rec)
    else:
        P._run_wsgi(app, body[:cut], env, rec, chunked=True)
    rec.trace = list(P.TRACE)
    problems = O.check_hostile({'proto': proto, 'transport': transport, 'request': 'truncated', 'stage': 'none',
                                'level': None}, rec)
    sx.observe('problems', problems)
    return not problems


FALSY_BODIES = [b'{"work": {}}', b'{"work": []}', b'{"work": ""}', b'{"work": 0}', b'{"work": false}', b'{"work": null}',
                b'{"small": {}}', b'{"small": []}']


@harness('C10', params=['server', 'wsgi-chunked'],
         functions=['spyne.protocol.dictdoc.hier.HierDictDocument.deserialize',
                    'spyne.protocol.dictdoc.hier.HierDictDocument._doc_to_object'],
         bounds={'requests': 'a registered method whose argument container is empty or a falsy scalar (8 concrete documents)'})
def json_falsy_argument_containers(sx, transport):
    """an empty or falsy argument container is either served (arguments absent) or refused with a Client fault; it is
    never turned into a Server fault"""
    body = sx.choose('body', FALSY_BODIES)
    app = P.get_app('json')
    rec = P.Record()
    del P.TRACE[:]
    P.BEHAVE.clear()
    if transport == 'server':
        P._run_server(app, body, {}, rec)
    else:
        P._run_wsgi(app, body, {}, rec, chunked=True)
    problems = []
    if rec.escaped is not None:
        problems.append('exception escaped: %r' % (rec.escaped,))
    resp = P.parse_response('json', rec.body)
    if resp[0] == 'fault' and not (resp[1] or '').startswith('Client'):
        problems.append('fault code %r for an empty argument container' % (resp[1],))
    if resp[0] == 'unparsed':
        problems.append('unparsable response')
    if rec.start_response and rec.start_response[0][0][:1] not in ('2', '4'):
        problems.append('HTTP status %r' % (rec.start_response[0][0],))
    sx.observe('problems', problems)
    return not problems

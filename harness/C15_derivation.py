"""C15 — deriving a model never changes another model (bounded histories with symbolic arguments).

A fresh pool of models is built on every path; a history of derivation / evolution operations is
chosen by the engine (structure) with symbolic numeric arguments (solver); after every step a
structural snapshot of every pooled model is compared with its previous snapshot."""
import copy
import decimal
from symx.api import harness

from spyne.model.complex import ComplexModel, Array, Iterable, Mandatory
from spyne.model.primitive import Integer, Integer32, Unicode, Decimal, Boolean
from spyne.model._base import ModelBase

SKIP_ATTRS = {'parent_variant'}


def _freeze(v):
    if isinstance(v, dict):
        return ('dict', [(k, _freeze(x)) for k, x in sorted(v.items(), key=lambda kv: repr(kv[0]))])
    if isinstance(v, (list, tuple)):
        return ('seq', [_freeze(x) for x in v])
    if isinstance(v, (set, frozenset)):
        return ('set', sorted(repr(x) for x in v))
    return v


def snap(sx, m, probes):
    """observable structure of a model: public attributes, ordered fields (by identity of the field type),
    flat field order, names, validation verdicts on the probe values"""
    at = []
    for k in sorted(dir(m.Attributes)):
        if k.startswith('_') or k in SKIP_ATTRS:
            continue
        try:
            v = getattr(m.Attributes, k)
        except Exception:
            continue
        if callable(v) and not isinstance(v, type):
            continue
        at.append((k, _freeze(v)))
    fields = None
    flat = None
    ti = getattr(m, '_type_info', None)
    if ti is not None and hasattr(ti, 'items') and issubclass(m, ComplexModel.__mro__[1]):
        fields = [(k, id(v)) for k, v in ti.items()]
        flat = list(m.get_flat_type_info(m).keys())
    verdict = None
    if not probes:
        pass
    elif issubclass(m, (Integer, Decimal)):
        verdict = m.validate_native(m, probes['int'])
    elif issubclass(m, Unicode):
        verdict = sx.And(m.validate_string(m, probes['str']), m.validate_native(m, probes['str']))
    return {'attrs': at, 'fields': fields, 'flat': flat, 'tn': m.__type_name__, 'ns': m.__namespace__,
            'verdict': verdict, 'keep': list(ti.values()) if fields is not None else None}


def unchanged_except(sx, base, new, allowed):
    """condition: the derived type differs from the type it was derived from in the allowed public attributes only"""
    a, b = dict(snap(sx, base, {})['attrs']), dict(snap(sx, new, {})['attrs'])
    conds = []
    for k in sorted(set(a) | set(b)):
        if k in allowed:
            continue
        conds.append(same(sx, a[k], b[k]) if (k in a and k in b) else False)
    return sx.And(*conds) if conds else True


# attributes that legitimately move together with a requested one
FOLLOWERS = {'pk': {'primary_key', 'sqla_column_args'}, 'server_default': {'sqla_column_args'}, 'pattern': {'unicode_pattern'}}
BOOKKEEPING = {'translations', 'sqla_column_args', 'type_name'}


def same(sx, a, b):
    """structural equality of two frozen values with symbolic leaves"""
    if isinstance(a, tuple) and isinstance(b, tuple) and len(a) == 2 and a[0] in ('dict', 'seq', 'set') \
            and b[0] == a[0]:
        if len(a[1]) != len(b[1]):
            return False
        return sx.And(*[same(sx, x, y) for x, y in zip(a[1], b[1])])
    if isinstance(a, (tuple, list)) and isinstance(b, (tuple, list)):
        if len(a) != len(b):
            return False
        return sx.And(*[same(sx, x, y) for x, y in zip(a, b)])
    if isinstance(a, type) or isinstance(b, type) or callable(a) or callable(b):
        return a is b
    if isinstance(a, (decimal.Decimal, float)) and isinstance(b, (decimal.Decimal, float)):
        return a == b
    try:
        return sx.eq(a, b)
    except Exception:
        return a is b or a == b


def same_snap(sx, s0, s1, what):
    cs = []
    for k in ('attrs', 'fields', 'flat', 'tn', 'ns'):
        cs.append(same(sx, s0[k], s1[k]))
    v0, v1 = s0['verdict'], s1['verdict']
    if v0 is not None or v1 is not None:
        cs.append(sx.Or(sx.And(v0, v1), sx.And(sx.Not(v0), sx.Not(v1))))
    return sx.And(*cs)


def fresh_pool():
    class C(ComplexModel):
        __namespace__ = 'tns'
        a = Integer
        s = Unicode

    class O(ComplexModel):
        __namespace__ = 'tns'
        c = C
        n = Integer(ge=0)

    class S(C):
        __namespace__ = 'tns'
        t = Unicode(max_len=4)

    class Mx(ComplexModel):           # a reusable group of fields
        __namespace__ = 'tns'
        __mixin__ = True
        m1 = Integer
        m2 = Unicode
        m3 = Integer

    class X(Mx):
        __namespace__ = 'tns'
        x1 = Unicode

    pool = {'P': Integer32(ge=0, min_occurs=1), 'U': Unicode(max_len=8, min_len=2), 'C': C, 'O': O, 'S': S, 'A': Array(C),
            'V': C.customize(nillable=False), 'X': X}
    return pool


MIXIN_ORDER = ['m1', 'm2', 'm3', 'x1']        # mixin fields first, in declaration order, then the class's own


def pick(sx, name, options, preset):
    if preset is not None and name in preset:
        if preset[name] >= len(options):
            sx.outside('shard beyond the option list')
        return options[preset[name]]
    return sx.choose(name, options)


PRIM = ('P', 'U')
CPLX = ('C', 'O', 'S', 'V')


def prim_kwargs(sx, i, base_is_unicode, preset=None):
    K = sx.int('k%d' % i, 0, 3)
    menu = [('ge', dict(ge=K)), ('le', dict(le=K + 100)), ('min_occurs', dict(min_occurs=K)),
            ('nillable', dict(nillable=False)), ('pk', dict(pk=True)), ('server_default', dict(server_default='x')),
            ('default', dict(default=K))]
    if base_is_unicode:
        menu = [('max_len', dict(max_len=K + 1)), ('min_len', dict(min_len=K)), ('pattern', dict(pattern='a+'))] + menu[2:] + \
               [('pattern lifted', dict(pattern=None))]
    return pick(sx, 'kw%d' % i, menu, preset)


def cplx_kwargs(sx, i, preset=None):
    K = sx.int('k%d' % i, 0, 3)
    menu = [('min_occurs', dict(min_occurs=K)), ('nillable', dict(nillable=False)),
            ('child_attrs a', dict(child_attrs={'a': dict(ge=K)})),
            ('child_attrs later', dict(child_attrs={'later': dict(min_occurs=1)})),
            ('child_attrs extra', dict(child_attrs={'extra': dict(max_len=3)})),
            ('child_attrs_all', dict(child_attrs_all=dict(min_occurs=1))),
            ('type_name', dict(type_name='Renamed')),
            ('child_attrs_all + child_attrs extra', dict(child_attrs_all=dict(min_occurs=1), child_attrs={'extra': dict(max_len=3)}))]
    return pick(sx, 'kw%d' % i, menu, preset)


PROBES = {}
PENDING = {}        # id(model) -> {future field name: attrs requested through child_attrs}
PENDING_ALL = {}    # id(model) -> attrs requested through child_attrs_all


def apply_op(sx, pool, i, kind, preset=None):
    """performs operation number i of the given kind on the pool; returns (description, changed-names, new-name, check)"""
    names = sorted(pool)
    if kind == 'prim':
        t = pick(sx, 't%d' % i, [n for n in names if issubclass(pool[n], (Integer, Unicode)) and not issubclass(pool[n], ComplexModel.__mro__[1])], preset)
        label, kw = prim_kwargs(sx, i, issubclass(pool[t], Unicode), preset)
        base = pool[t]
        new = base.customize(**kw)
        chk = []
        for k, v in kw.items():
            if k in ('pk',):
                chk.append(new.Attributes.primary_key is True)
            elif k == 'server_default':
                chk.append(new.Attributes.sqla_column_args[-1].get('server_default') == 'x')
            else:
                chk.append(sx.eq(getattr(new.Attributes, k), v))
        # ... and nothing that was not asked for changes (an unrelated facet of the base - the length limit of the text
        # form of a number, say - is inherited)
        allowed = set(kw) | BOOKKEEPING
        for k in kw:
            allowed |= FOLLOWERS.get(k, set())
        chk.append(unchanged_except(sx, base, new, allowed))
        if issubclass(new, Unicode) and 'str' in PROBES:
            # what the derived type enforces is what its attributes say (length facets, whole-string pattern): a facet that
            # was lifted or replaced no longer decides
            A, ps = new.Attributes, PROBES['str']
            want = [len(ps) >= A.min_len, True if isinstance(A.max_len, decimal.Decimal) else len(ps) <= A.max_len]
            if A.pattern is not None:
                want.append(sx.matches(A.pattern, ps))
            chk.append(sx.eq(sx.And(new.validate_string(new, ps), new.validate_native(new, ps)), sx.And(*want)))
        return ('%s.customize(%s)' % (t, label), set(), new, chk)
    if kind == 'cust':
        t = pick(sx, 't%d' % i, [n for n in names if issubclass(pool[n], ComplexModel.__mro__[1]) and not issubclass(pool[n], Array)], preset)
        label, kw = cplx_kwargs(sx, i, preset)
        new = pool[t].customize(**kw)
        if t == 'X' and not any(k.startswith('child_attrs') for k in kw):
            pass
        pend = dict((f, dict(a)) for f, a in PENDING.get(id(pool[t]), {}).items())
        for f, a in kw.get('child_attrs', {}).items():
            if f not in new.get_flat_type_info(new):
                pend.setdefault(f, {}).update(a)
        PENDING[id(new)] = pend
        pall = dict(PENDING_ALL.get(id(pool[t]), {}))
        pall.update(kw.get('child_attrs_all', {}))
        PENDING_ALL[id(new)] = pall
        chk = [list(new._type_info.keys()) == list(pool[t]._type_info.keys())]
        for k, v in kw.items():
            if k in ('min_occurs', 'nillable'):
                chk.append(sx.eq(getattr(new.Attributes, k), v))
        if 'child_attrs' in kw and 'a' in kw['child_attrs'] and 'a' in new._type_info:
            chk.append(sx.eq(new._type_info['a'].Attributes.ge, kw['child_attrs']['a']['ge']))
        return ('%s.customize(%s)' % (t, label), set(), new, chk)
    if kind == 'array':
        t = pick(sx, 't%d' % i, names, preset)
        K = sx.int('k%d' % i, 0, 3)
        new = Array(pool[t], min_occurs=K) if sx.choose('iter%d' % i, [0, 1]) == 0 else Iterable(pool[t])
        chk = [True]
        return ('Array(%s)' % t, set(), new, chk)
    if kind == 'mandatory':
        t = pick(sx, 't%d' % i, names, preset)
        new = Mandatory(pool[t])
        # Mandatory() is a customize(): the new variant inherits what its base still has pending
        PENDING[id(new)] = dict((f, dict(a)) for f, a in PENDING.get(id(pool[t]), {}).items())
        PENDING_ALL[id(new)] = dict(PENDING_ALL.get(id(pool[t]), {}))
        chk = [new.Attributes.min_occurs == 1, new.Attributes.nillable is False]
        chk.append(unchanged_except(sx, pool[t], new, {'min_occurs', 'nillable', 'min_len'} | BOOKKEEPING))
        if issubclass(new, Unicode):
            # mandatory text is not empty - and a stricter lower bound of the base stays
            bl = pool[t].Attributes.min_len
            chk.append(sx.eq(new.Attributes.min_len, bl if (bl >= 1) is True or bool(bl >= 1) else 1))
        return ('Mandatory(%s)' % t, set(), new, chk)
    if kind == 'subclass':
        t = pick(sx, 't%d' % i, [n for n in names if issubclass(pool[n], ComplexModel.__mro__[1]) and not issubclass(pool[n], Array)
                                  and getattr(pool[n], '__orig__', None) is None], preset)
        base = pool[t]
        new = type('Sub%d' % i, (base,), {'__namespace__': 'tns', 'extra%d' % i: Integer})
        want = list(base.get_flat_type_info(base).keys()) + ['extra%d' % i]
        return ('subclass(%s)' % t, set(), new, [list(new.get_flat_type_info(new).keys()) == want])
    if kind in ('append', 'insert'):
        t = sx.choose('target%d' % i, ['C', 'S'])
        T = pool[t]
        fname = sx.choose('fname%d' % i, [f for f in ['later', 'extra', 'zz']
                                          if f not in pool['S'].get_flat_type_info(pool['S'])])
        ftype = sx.choose('ftype%d' % i, [Unicode, Integer])
        cplx = [n for n in names if issubclass(pool[n], ComplexModel.__mro__[1]) and not issubclass(pool[n], Array)]
        before = {n: list(pool[n].get_flat_type_info(pool[n]).keys()) for n in cplx}
        own_all = {n: list(pool[n]._type_info.keys()) for n in cplx}
        if kind == 'append':
            idx = len(T._type_info)
            T.append_field(fname, ftype)
        else:
            idx = sx.choose('index%d' % i, [0, -1] if sx.tier == 'quick' else ([0, 1, -1, -2] if i < 2 else [0, -1, 1]))
            T.insert_field(idx, fname, ftype)
        changed = set()
        chk = []
        for n in cplx:
            m = pool[n]
            root = getattr(m, '__orig__', None) or m
            if root is T:
                # the class and each of its variants get the field at the position list.insert() gives it
                changed.add(n)
                want_own = list(own_all[n])
                want_own.insert(idx, fname)
                chk.append(list(m._type_info.keys()) == want_own)
            elif issubclass(root, T):
                # subclasses (and their variants) see it through the parent only: own fields are untouched
                changed.add(n)
                chk.append(list(m._type_info.keys()) == own_all[n])
            else:
                continue
            now = list(m.get_flat_type_info(m).keys())
            # the new field appears once, in declaration order: parents first
            chk.append(now.count(fname) == 1)
            chk.append([x for x in now if x != fname] == before[n])
            ft = m.get_flat_type_info(m).get(fname)
            if ft is not None:
                # the added field - seen by a subclass variant through its parent - carries exactly what this variant asked
                # for (child_attrs for a field that did not exist yet, child_attrs_all) and nothing another variant asked for
                want = dict(PENDING_ALL.get(id(m), {}))       # child_attrs_all covers inherited fields as well
                want.update(PENDING.get(id(m), {}).get(fname, {}))
                chk.append(sx.eq(ft.Attributes.min_occurs, want.get('min_occurs', ftype.Attributes.min_occurs)))
                if ftype is Unicode:
                    chk.append(sx.eq(ft.Attributes.max_len, want.get('max_len', ftype.Attributes.max_len)))
        if t == 'C':
            changed.add('A')     # Array(C) holds a variant of C
        return ('%s.%s_field(%s)' % (t, kind, fname), changed, None, chk)
    raise ValueError(kind)


KINDS = ['prim', 'cust', 'array', 'mandatory', 'subclass', 'append', 'insert']


def _run_history(sx, kinds, preset=None):
    PENDING.clear()
    PENDING_ALL.clear()
    pool = fresh_pool()
    probes = {'int': sx.int('probe', -5, 200), 'str': sx.text('probe_s', sx.choose('probe_len', [3] if sx.tier == 'quick' else [0, 3]), alphabet='ab')}
    PROBES.clear()
    PROBES.update(probes)
    snaps = {n: snap(sx, m, probes) for n, m in pool.items()}
    ok = [list(pool['X'].get_flat_type_info(pool['X']).keys()) == MIXIN_ORDER,
          # building the pool derived P from Integer32: what was not asked for is Integer32's
          sx.eq(pool['P'].Attributes.max_str_len, Integer32.Attributes.max_str_len)]
    desc = []
    for i, kind in enumerate(kinds):
        d, changed, new, chk = apply_op(sx, pool, i, kind, preset if i == 0 else None)
        desc.append(d)
        ok += chk
        for n, m in list(pool.items()):
            if n in changed:
                snaps[n] = snap(sx, m, probes)
                continue
            s1 = snap(sx, m, probes)
            ok.append(same_snap(sx, snaps[n], s1, n))
            snaps[n] = s1
        if new is not None:
            name = 'D%d' % i
            pool[name] = new
            snaps[name] = snap(sx, new, probes)
    sx.observe('history', desc)
    return sx.And(*ok)


FUNCS = ['spyne.model._base.ModelBase._s_customize', 'spyne.model._base.ModelBase.customize',
         'spyne.model.complex.ComplexModelBase.customize', 'spyne.model.complex._process_child_attrs',
         'spyne.model.complex.ComplexModelBase.append_field', 'spyne.model.complex.ComplexModelBase.insert_field',
         'spyne.model.complex.Array.__new__', 'spyne.model.complex.Mandatory',
         'spyne.model.primitive.number.Decimal._s_customize']


@harness('C15', params=[(a, b) for a in KINDS for b in KINDS], label=lambda p: '%s,%s' % p, functions=FUNCS,
         max_paths=60000,
         bounds={'history': 'every sequence of 2 operations out of {primitive customization, customize, child_attrs, '
                            'child_attrs_all, Array/Iterable, Mandatory, subclassing, append_field, insert_field} over a '
                            'pool of 7 models plus the models derived so far; numeric arguments symbolic (0..3)'})
def history2(sx, p):
    """after every step every other pooled model is observably unchanged and the derived model carries
    the requested constraints; fields added later appear in all variants in declaration order"""
    return _run_history(sx, list(p))


H3 = [('cust', 'cust', 'append'), ('cust', 'cust', 'insert'), ('prim', 'prim', 'prim'), ('cust', 'mandatory', 'append'),
      ('array', 'mandatory', 'cust'), ('cust', 'subclass', 'append'), ('prim', 'array', 'mandatory'),
      ('subclass', 'cust', 'insert')]


def _shards(triples):
    out = []
    for t in triples:
        nt = 8 if t[0] in ('array', 'mandatory') else 6 if t[0] == 'cust' else 4 if t[0] == 'subclass' else 2 if t[0] == 'prim' else 1
        nk = 8 if t[0] == 'cust' else 9 if t[0] == 'prim' else 1
        out += [(t, j, k) for j in range(nt) for k in range(nk)]
    return out


@harness('C15', tier_params={'quick': _shards(H3[:1]), 'thorough': _shards(H3 + [(a, b, c) for a in ('mandatory', 'subclass') for b in ('cust', 'mandatory') for c in ('append',) if (a, b, c) not in H3])},
         label=lambda p: '%s t0=%d kw0=%d' % (','.join(p[0]), p[1], p[2]), functions=FUNCS, max_paths=200000,
         bounds={'history': 'sequences of 3 operations: one representative kind-triple (customize, customize, append_field) in the quick tier, 12 kind-triples (8 representative + {Mandatory, subclassing} x {customize, Mandatory} x append_field) in the thorough tier; targets and keyword sets enumerated, numbers symbolic'})
def history3(sx, p):
    kinds, t0, kw0 = p
    return _run_history(sx, list(kinds), {'t0': t0, 'kw0': kw0})

"""C02 — dict-document wire fidelity (JSON, YAML, MessagePack).

The request document is built by a *reference codec written from the documented conventions*
(method name as the single key, objects as maps or positional lists, wrapper keys when wrappers are
on, numbers as numbers, decimals/dates as strings) - not by spyne's own serialiser - and handed to
the real decompose_incoming_envelope + deserialize; the response produced by the real serialize is
decoded by the same reference conventions.  All leaves are symbolic and pairwise independent, so
any misrouting, permutation or coercion is a satisfiable disequality.

In concrete (replay) mode the same documents additionally travel through the real wire libraries
(json / PyYAML / msgpack) via create_in_document and create_out_string."""
import json as _json
from symx.api import harness

from spyne import Application, Service, rpc, ComplexModel
from spyne.model.primitive import Integer, Unicode, Decimal, Date, Boolean, Double, Integer64, Integer32, Integer8, UnsignedInteger64, DateTime, Time
from spyne.model.complex import Array
from spyne.model.binary import ByteArray
from spyne.model.fault import Fault
from spyne.protocol.json import JsonDocument
from spyne.protocol.yaml import YamlDocument
from spyne.protocol.msgpack import MessagePackDocument
from spyne.server import ServerBase
from spyne.context import MethodContext

CAPTURE = {}


class InnerBase(ComplexModel):
    __namespace__ = 'tns'
    v = Integer


class Inner(InnerBase):          # v is inherited: parents' fields first, in every document form
    __namespace__ = 'tns'
    w = Unicode


class Obj(ComplexModel):
    __namespace__ = 'tns'
    n = Integer
    s = Unicode
    d = Decimal
    dt = Date
    b = Boolean
    inner = Inner
    arr = Array(Integer)
    objs = Array(Inner)


class Svc(Service):
    @rpc(Integer, Unicode, Obj, _returns=Obj)
    def f(ctx, a, s, o):
        CAPTURE['args'] = (a, s, o)
        return CAPTURE.get('ret')

    @rpc(Integer, _returns=[Integer, Unicode])
    def two(ctx, a):
        CAPTURE['args'] = (a,)
        return CAPTURE.get('ret')

    @rpc(Integer64, Integer32, Integer8, UnsignedInteger64, _returns=Integer64)
    def fixed(ctx, i64, i32, i8, u64):
        CAPTURE['args'] = (i64, i32, i8, u64)
        return CAPTURE.get('ret')

    @rpc(ByteArray, _returns=ByteArray)
    def blob(ctx, data):
        CAPTURE['args'] = (data,)
        return CAPTURE.get('ret')

    @rpc(Array(Integer), _returns=Array(Integer))
    def arr(ctx, xs):
        CAPTURE['args'] = (xs,)
        return CAPTURE.get('ret')

    # bare body style: the message is the single argument / return value itself
    @rpc(Integer, _returns=Integer, _body_style='bare')
    def bint(ctx, x):
        return x

    @rpc(Array(Integer), _returns=Array(Integer), _body_style='bare')
    def bints(ctx, xs):
        return xs

    @rpc(Inner, _returns=Inner, _body_style='bare')
    def binner(ctx, x):
        return x

    @rpc(Array(Inner), _returns=Array(Inner), _body_style='bare')
    def binners(ctx, xs):
        return xs

    @rpc(DateTime, _returns=DateTime, _body_style='bare')
    def bwhen(ctx, t):
        return t

    @rpc(Array(Array(Integer)), _returns=Array(Array(Integer)), _body_style='bare')
    def bgrid(ctx, rows):
        return rows

    @rpc(Time, _returns=Time, _body_style='bare')
    def btime(ctx, t):
        return t


PROTOCOLS = {'json': JsonDocument, 'yaml': YamlDocument, 'msgpack': MessagePackDocument,
             'msgpack-bkey': MessagePackDocument}     # -bkey: the method key is sent as msgpack bin
APPS = {}


def get(pname, wrappers, as_list, validator):
    key = (pname, wrappers, as_list, validator)
    if key not in APPS:
        cls = PROTOCOLS[pname]
        kw = dict(ignore_wrappers=not wrappers, complex_as=list if as_list else dict)
        app = Application([Svc], 'tns', in_protocol=cls(validator=validator, **kw), out_protocol=cls(**kw))
        APPS[key] = (app, ServerBase(app))
    return APPS[key]


# ------------------------------------------------------------------ reference codec
FIELDS = {'Inner': [('v', 'int'), ('w', 'str')],
          'Obj': [('n', 'int'), ('s', 'str'), ('d', 'dec'), ('dt', 'date'), ('b', 'bool'), ('inner', 'Inner'),
                  ('arr', ['int']), ('objs', ['Inner'])]}


def enc_int(sx, v, wire):
    """msgpack cannot carry integers outside [-2^63, 2^64): those travel as decimal text"""
    if wire == 'msgpack' and v is not None:
        if not (v >= -2 ** 63 and v < 2 ** 64):
            # decimal text, as msgpack str or - the form spyne itself writes - as msgpack bin (one spelling per run)
            form = getattr(sx, '_text_form', None)
            if form is None:
                form = sx._text_form = sx.choose('text_form', ['str', 'bin'])
            return sx.render(v) if form == 'str' else sx.render(v).encode('ascii')
    return v


def ref_encode(val, typ, wrappers, as_list, sx=None, wire=None):
    """value (nested python structure with leaf values) -> document node"""
    if val is None:
        return None
    if isinstance(typ, list):
        return [ref_encode(x, typ[0], wrappers, as_list, sx, wire) for x in val]
    if typ in FIELDS:
        if as_list:
            body = [ref_encode(val.get(k), t, wrappers, as_list, sx, wire) for k, t in FIELDS[typ]]
        else:
            body = dict((k, ref_encode(val[k], t, wrappers, as_list, sx, wire)) for k, t in FIELDS[typ]
                        if val.get(k) is not None)
        return {typ: body} if wrappers else body
    if typ == 'int':
        return enc_int(sx, val, wire)
    if wire == 'msgpack' and typ in ('dec', 'date') and sx is not None:
        # msgpack: text travels as str or - the form spyne itself writes - as bin (one spelling per run)
        form = getattr(sx, '_text_form', None)
        if form is None:
            form = sx._text_form = sx.choose('text_form', ['str', 'bin'])
        return val if form == 'str' else val.encode('ascii')
    return val       # leaves: numbers as numbers, bool as bool, str as str, decimal/date already text


def _as_text(sx, x):
    """msgpack carries text as bin: utf-8 bytes denote the same text"""
    if sx.is_bytes(x):
        try:
            return x.decode('utf8')
        except UnicodeDecodeError:
            return x
    return x


def _leaf_eq(sx, typ, got, sent, wire=None):
    """does the value `got` equal the value denoted by the sent leaf?  (wire='msgpack': document node
    decoded from msgpack, where text is bin and huge integers are decimal text)"""
    if sent is None:
        return got is None
    if got is None:
        return False
    if wire == 'msgpack':
        if sx.is_bytes(got) and typ == 'str':
            return sx.eq(got, sent.encode('utf8'))
        got = _as_text(sx, got)
        if typ == 'int' and sx.is_str(got):
            from harness.common import int_literal
            lit, val = int_literal(sx, got)
            return sx.And(lit, sx.eq(val, sent), sx.Not(sx.And(sent >= -2 ** 63, sent < 2 ** 64)))
        if typ == 'int':
            return sx.And(sx.is_int(got), sx.eq(got, sent), sent >= -2 ** 63, sent < 2 ** 64)
    if typ == 'int':
        return sx.And(sx.is_int(got), sx.eq(got, sent))
    if typ == 'str':
        return sx.And(sx.is_str(got), sx.eq(got, sent))
    if typ == 'bool':
        return sx.And(sx.is_bool(got), sx.eq(got, sent))
    if typ == 'dec':          # sent as text 'iii.ff' -> numeric value
        ip, fp = sent['ip'], sent['fp']
        want = sx.digits_value(ip) * 100 + sx.digits_value(fp)
        if sx.symbolic:
            from symx.core import SInt
            from symx.stdmodels import SDecimal
            if not isinstance(got, SDecimal):
                return False
            return sx.eq(SInt(got.value_scaled(-2)), -want if sent['neg'] else want)
        import decimal
        return isinstance(got, decimal.Decimal) and got * 100 == (-want if sent['neg'] else want)
    if typ == 'date':
        return sx.And(sx.eq(got.year, sx.digits_value(sent['y'])), sx.eq(got.month, sx.digits_value(sent['m'])),
                      sx.eq(got.day, sx.digits_value(sent['d'])))
    raise ValueError(typ)


def native_matches(sx, typ, got, sent):
    """native value tree delivered to user code == sent value tree"""
    if isinstance(typ, list):
        if sent is None:
            return got is None or got == []
        if got is None or len(got) != len(sent):
            return False
        return sx.And(*[native_matches(sx, typ[0], g, s) for g, s in zip(got, sent)])
    if typ in FIELDS:
        if sent is None:
            return got is None
        if got is None or type(got).__name__ != typ:
            return False
        return sx.And(*[native_matches(sx, t, getattr(got, k, None), sent.get(k)) for k, t in FIELDS[typ]])
    return _leaf_eq(sx, typ, got, sent)


def _wire_text(typ, sent):
    if typ == 'dec':
        return ('-' if sent['neg'] else '') + sent['ip'] + '.' + sent['fp']
    if typ == 'date':
        return sent['y'] + '-' + sent['m'] + '-' + sent['d']
    return sent


def to_wire(val, typ):
    """replace structured leaves (decimal, date) by their documented text form"""
    if val is None:
        return None
    if isinstance(typ, list):
        return [to_wire(x, typ[0]) for x in val]
    if typ in FIELDS:
        return dict((k, to_wire(val.get(k), t)) for k, t in FIELDS[typ])
    return _wire_text(typ, val)


def mk_inner(sx, tag, wide=False):
    return {'v': sx.int(tag + '_v') if wide else sx.int(tag + '_v', -9, 9),
            'w': sx.text(tag + '_w', 1, lo=1, hi=0xD7FF if wide else 0x7E)}


def mk_obj(sx, tag, narr, nobjs, lean=False):
    """leaves: one unbounded integer (n), one string of arbitrary code points (s), the nested object's
    fields wide as well; array leaves from small ranges so that the path count stays small"""
    neg = sx.choose(tag + '_dneg', [False, True])
    ip = sx.digits(tag + '_dip', 2)
    sx.assume(sx.Not(sx.eq(ip[:1], '0')))
    y, m, d = sx.digits(tag + '_y', 4), sx.digits(tag + '_m', 2), sx.digits(tag + '_d', 2)
    sx.assume(sx.And(sx.digits_value(y) >= 1, sx.digits_value(m) >= 1, sx.digits_value(m) <= 12,
                     sx.digits_value(d) >= 1, sx.digits_value(d) <= 28))
    BIG = 2 ** 66
    return {'n': sx.int(tag + '_n', -BIG, BIG),
            's': sx.text(tag + '_s0', 1, lo=1, hi=0xD7FF) + sx.text(tag + '_s1', 1, lo=1, hi=0x7E),
            'd': {'neg': neg, 'ip': ip, 'fp': sx.digits(tag + '_dfp', 2)},
            'dt': {'y': y, 'm': m, 'd': d}, 'b': sx.bool(tag + '_b'), 'inner': mk_inner(sx, tag + '_in', not lean),
            'arr': [sx.int(tag + '_a%d' % i, -9, 9) for i in range(narr)] if narr is not None else None,
            'objs': [mk_inner(sx, tag + '_o%d' % i) for i in range(nobjs)] if nobjs is not None else None}


# ------------------------------------------------------------------ driving the real protocol
def _key(pname, k):
    return k


def deliver(sx, pname, app, server, doc):
    """hand a request document to the real input side; returns the context after deserialize"""
    prot = app.in_protocol
    ctx = MethodContext(server, MethodContext.SERVER)
    if pname == 'msgpack-bkey':
        doc = dict((k.encode('utf8'), v) for k, v in doc.items())
    if sx.symbolic:
        ctx.in_document = doc
    else:
        ctx.in_string = [_dump(pname, doc)]
        prot.create_in_document(ctx)
    prot.decompose_incoming_envelope(ctx, prot.REQUEST)
    ctx, = prot.generate_method_contexts(ctx)
    prot.deserialize(ctx, prot.REQUEST)
    return ctx


def _dump(pname, doc):
    if pname == 'json':
        return _json.dumps(doc).encode('utf8')
    if pname == 'yaml':
        import yaml
        return yaml.safe_dump(doc, allow_unicode=True).encode('utf8')
    import msgpack
    return msgpack.packb(doc, use_bin_type=True)


def _load(pname, data):
    if pname == 'json':
        return _json.loads(data.decode('utf8'))
    if pname == 'yaml':
        import yaml
        return yaml.safe_load(data.decode('utf8'))
    import msgpack
    return msgpack.unpackb(data, raw=False, strict_map_key=False)


def respond(sx, pname, app, ctx, ret):
    """run the real output side for return value(s) `ret` (already a sequence); returns the out document"""
    prot = app.out_protocol
    ctx.out_object = ret
    ctx.out_error = None
    ctx.out_document = None
    prot.serialize(ctx, prot.RESPONSE)
    doc = ctx.out_document
    if not sx.symbolic:
        prot.create_out_string(ctx)
        data = b''.join(x if isinstance(x, bytes) else x.encode('utf8') for x in ctx.out_string)
        doc = (_load(pname, data),)
    return doc


def _denorm(x):
    """msgpack / yaml hand back tuples and bytes keys in places; normalise containers"""
    if isinstance(x, tuple):
        return [_denorm(y) for y in x]
    if isinstance(x, list):
        return [_denorm(y) for y in x]
    if isinstance(x, dict):
        return dict(((k.decode('utf8') if isinstance(k, bytes) else k), _denorm(v)) for k, v in x.items())
    return x


def ref_decode_matches(sx, node, typ, sent, wrappers, as_list, wire=None):
    """does document `node` denote value `sent` of type `typ` under the documented conventions?"""
    node = _denorm(node)
    if isinstance(typ, list):
        if sent is None:
            return node is None or node == []
        if not isinstance(node, list) or len(node) != len(sent):
            return False
        return sx.And(*[ref_decode_matches(sx, n, typ[0], s, wrappers, as_list, wire) for n, s in zip(node, sent)])
    if typ in FIELDS:
        if sent is None:
            return node is None
        if wrappers and not (as_list and isinstance(node, list)):
            # positional lists cannot carry a wrapper key; both spellings are accepted for them
            if not isinstance(node, dict) or list(node.keys()) != [typ]:
                return False
            node = node[typ]
        if as_list:
            if not isinstance(node, list) or len(node) != len(FIELDS[typ]):
                return False
            return sx.And(*[ref_decode_matches(sx, n, t, sent.get(k), wrappers, as_list, wire)
                            for n, (k, t) in zip(node, FIELDS[typ])])
        if not isinstance(node, dict):
            return False
        if any(k not in [f for f, _ in FIELDS[typ]] for k in node):
            return False
        return sx.And(*[ref_decode_matches(sx, node.get(k), t, sent.get(k), wrappers, as_list, wire) for k, t in FIELDS[typ]])
    if sent is None:
        return node is None
    if typ in ('dec', 'date'):
        want = _wire_text(typ, sent)
        if wire == 'msgpack':
            node = _as_text(sx, node)
        if typ == 'dec':
            # any xs:decimal spelling of the same number is fine: compare numerically via text identity of
            # the canonical form spyne documents (str(Decimal)) - the sent text has no redundant digits
            return sx.And(sx.is_str(node), sx.eq(node, want))
        return sx.And(sx.is_str(node), sx.eq(node, want))
    return _leaf_eq(sx, typ, node, sent, wire)


CONFIGS = [(p, w, l, v) for p in ('json', 'yaml', 'msgpack', 'msgpack-bkey') for w in (False, True) for l in (False, True)
           for v in (None, 'soft')]
FUNCS = ['spyne.protocol.dictdoc._base.DictDocument.decompose_incoming_envelope',
         'spyne.protocol.dictdoc.hier.HierDictDocument.deserialize',
         'spyne.protocol.dictdoc.hier.HierDictDocument._doc_to_object',
         'spyne.protocol.dictdoc.hier.HierDictDocument._from_dict_value',
         'spyne.protocol.dictdoc.hier.HierDictDocument.serialize',
         'spyne.protocol.dictdoc.hier.HierDictDocument._object_to_doc',
         'spyne.protocol.dictdoc.hier.HierDictDocument._to_dict_value',
         'spyne.protocol.dictdoc.hier.HierDictDocument._get_member_pairs',
         'spyne.protocol.dictdoc.hier.HierDictDocument._complex_to_dict',
         'spyne.protocol.dictdoc.hier.HierDictDocument._complex_to_list',
         'spyne.protocol.json.JsonDocument._ret_number', 'spyne.protocol.msgpack.MessagePackDocument.integer_to_bytes',
         'spyne.protocol.msgpack.MessagePackDocument.integer_from_bytes',
         'spyne.protocol._base.ProtocolMixin.generate_method_contexts']
LABEL = lambda c: '%s wrappers=%s list=%s validator=%s' % c
BOUNDS = {'values': 'integers |v| <= 2^66 (across the 2^63 / 2^64 boundaries), strings with an arbitrary code point (U+0001..U+D7FF), decimals [-]dd.dd, '
                    'dates with symbolic digits, booleans; arrays of 0..2 ints, 0..1 objects; fully populated objects',
          'configs': '{Json, Yaml, MessagePack} x ignore_wrappers x complex_as {dict, list} x validator {None, soft}'}


@harness('C02', params=CONFIGS, label=LABEL, functions=FUNCS, bounds=BOUNDS)
def request_fidelity(sx, cfg):
    """a request document built by the documented conventions delivers exactly the sent values"""
    pname, wrappers, as_list, validator = cfg
    app, server = get(*cfg)
    narr = sx.choose('narr', [2, 0])
    a = sx.int('a', -2 ** 66, 2 ** 66)
    s = sx.text('s', 2, lo=1, hi=0xD7FF)
    o = mk_obj(sx, 'o', narr, 1, lean=pname.startswith('msgpack'))
    wo = to_wire(o, 'Obj')
    wire = 'msgpack' if pname.startswith('msgpack') else None
    if as_list:
        body = [enc_int(sx, a, wire), s, ref_encode(wo, 'Obj', wrappers, as_list, sx, wire)]
    else:
        body = {'a': enc_int(sx, a, wire), 's': s, 'o': ref_encode(wo, 'Obj', wrappers, as_list, sx, wire)}
    doc = {'f': body}
    ctx = deliver(sx, pname, app, server, doc)
    got = ctx.in_object
    if got is None or len(got) != 3:
        return False
    return sx.And(_leaf_eq(sx, 'int', got[0], a), _leaf_eq(sx, 'str', got[1], s),
                  native_matches(sx, 'Obj', got[2], o))


def _mk_native(o):
    """value tree -> spyne instances (what a user function would return)"""
    import decimal, datetime
    if o is None:
        return None
    d = o['d']
    memo = {}       # the same node of the value tree becomes the same instance (shared references)

    def inner(x):
        if id(x) not in memo:
            memo[id(x)] = Inner(**x)
        return memo[id(x)]
    return Obj(n=o['n'], s=o['s'], d=_native_dec(d), dt=_native_date(o['dt']), b=o['b'],
               inner=inner(o['inner']), arr=o['arr'],
               objs=[inner(x) for x in o['objs']] if o['objs'] is not None else None)


def _native_dec(d):
    if isinstance(d['ip'], str):
        import decimal
        return decimal.Decimal(('-' if d['neg'] else '') + d['ip'] + '.' + d['fp'])
    from symx.stdmodels import SDecimal
    return SDecimal(bool(d['neg']), d['ip'] + d['fp'], -2)


def _native_date(t):
    if isinstance(t['y'], str):
        import datetime
        return datetime.date(int(t['y']), int(t['m']), int(t['d']))
    from symx.stdmodels import SDate
    from symx.core import SInt
    from symx.strs import digits_val
    return SDate(SInt(digits_val(t['y'].c)), SInt(digits_val(t['m'].c)), SInt(digits_val(t['d'].c)), True)


@harness('C02', params=CONFIGS, label=LABEL, functions=FUNCS, bounds=BOUNDS)
def response_fidelity(sx, cfg):
    """the response document decodes, by the same conventions, to exactly the value returned"""
    pname, wrappers, as_list, validator = cfg
    app, server = get(*cfg)
    ctx = deliver(sx, pname, app, server, {'f': [1, 'x', None] if as_list else {'a': 1}})
    narr = sx.choose('narr', [2, 0, None])
    o = mk_obj(sx, 'r', narr, 1, lean=pname.startswith('msgpack'))
    # the returned object graph may reference one instance from two places (it is acyclic all the same)
    share = sx.choose('share', ['none', 'inner is objs[0]', 'objs[0] is objs[1]'])
    if share == 'inner is objs[0]':
        o['objs'] = [o['inner']]
    elif share == 'objs[0] is objs[1]':
        o['objs'] = [o['objs'][0], o['objs'][0]]
    # the decimal has no redundant digits so that its canonical text is unique
    sx.assume(sx.Not(sx.eq(o['d']['fp'][1:], '0')))
    doc = respond(sx, pname, app, ctx, [_mk_native(o)])
    if not isinstance(doc, (list, tuple)) or len(doc) != 1:
        return False
    node = _denorm(doc[0])
    if wrappers:
        # {'fResponse': {'fResult': <value>}}; positional form: [<value>] (with or without the wrapper key)
        if isinstance(node, dict):
            if list(node.keys()) != ['fResponse']:
                return False
            node = node['fResponse']
        elif not as_list:
            return False
        if as_list:
            if not isinstance(node, list) or len(node) != 1:
                return False
            node = node[0]
        else:
            if not isinstance(node, dict) or list(node.keys()) != ['fResult']:
                return False
            node = node['fResult']
    return ref_decode_matches(sx, node, 'Obj', o, wrappers, as_list, 'msgpack' if pname.startswith('msgpack') else None)


@harness('C02', params=[c for c in CONFIGS if not c[2]], label=LABEL, functions=FUNCS,
         bounds={'values': 'two return values (unbounded int, 2-char string); integer argument incl. the 2^63 / 2^64 '
                           'boundaries (symbolic, unbounded)'})
def multi_return_and_big_ints(sx, cfg):
    """integers of any magnitude survive in both directions; multiple return values keep their order"""
    pname, wrappers, as_list, validator = cfg
    app, server = get(*cfg)
    a = sx.int('a', -2 ** 66, 2 ** 66)
    ctx = deliver(sx, pname, app, server, {'two': {'a': enc_int(sx, a, 'msgpack' if pname.startswith('msgpack') else None)}})
    got = ctx.in_object
    if got is None or len(got) != 1:
        return False
    r0 = sx.int('r0', -2 ** 66, 2 ** 66)
    r1 = sx.text('r1', 2, lo=1, hi=0xD7FF)
    doc = respond(sx, pname, app, ctx, [r0, r1])
    if not isinstance(doc, (list, tuple)) or len(doc) != 1:
        return False
    node = _denorm(doc[0])
    if wrappers:
        if not isinstance(node, dict) or list(node.keys()) != ['twoResponse']:
            return False
        node = node['twoResponse']
    if not isinstance(node, dict) or sorted(node.keys()) != ['twoResult0', 'twoResult1']:
        return False
    wire = 'msgpack' if pname.startswith('msgpack') else None
    return sx.And(_leaf_eq(sx, 'int', got[0], a), _leaf_eq(sx, 'int', node['twoResult0'], r0, wire),
                  _leaf_eq(sx, 'str', node['twoResult1'], r1, wire))


@harness('C02', params=[c for c in CONFIGS if not c[2]], label=LABEL, functions=FUNCS,
         bounds={'values': 'every value of Integer64, Integer32, Integer8 and UnsignedInteger64 (the bounds themselves included), as '
                           'arguments and as the return value'})
def fixed_width_ints(sx, cfg):
    """every value of a fixed-width integer type - its smallest and largest included - is delivered and returned unchanged,
    under every validator setting"""
    pname, wrappers, as_list, validator = cfg
    app, server = get(*cfg)
    wire = 'msgpack' if pname.startswith('msgpack') else None
    vals = {'i64': sx.int('i64', -2 ** 63, 2 ** 63 - 1), 'i32': sx.int('i32', -2 ** 31, 2 ** 31 - 1),
            'i8': sx.int('i8', -2 ** 7, 2 ** 7 - 1), 'u64': sx.int('u64', 0, 2 ** 64 - 1)}
    ctx = deliver(sx, pname, app, server, {'fixed': dict((k, enc_int(sx, v, wire)) for k, v in vals.items())})
    got = ctx.in_object
    if got is None or len(got) != 4:
        return False
    ok = [_leaf_eq(sx, 'int', g, vals[k]) for g, k in zip(got, ('i64', 'i32', 'i8', 'u64'))]
    r = sx.int('r', -2 ** 63, 2 ** 63 - 1)
    doc = respond(sx, pname, app, ctx, [r])
    if not isinstance(doc, (list, tuple)) or len(doc) != 1:
        return False
    node = _denorm(doc[0])
    if wrappers:
        if not isinstance(node, dict) or list(node.keys()) != ['fixedResponse']:
            return False
        node = node['fixedResponse']
        if not isinstance(node, dict) or list(node.keys()) != ['fixedResult']:
            return False
        node = node['fixedResult']
    ok.append(_leaf_eq(sx, 'int', node, r, wire))       # without wrappers a single return value is the document itself
    return sx.And(*ok)


BLOB_SHAPES = [(3,), (1, 2), (2, 2), (2, 1, 1)]


@harness('C02', params=[(c, sh) for c in CONFIGS if not c[2] and c[0] in ('json', 'yaml') for sh in BLOB_SHAPES],
         label=lambda p: LABEL(p[0]) + ' chunks=%s' % (p[1],), functions=FUNCS + ['spyne.model.binary.ByteArray.to_base64',
                                                                                 'spyne.model.binary.ByteArray.from_base64'],
         bounds={'value': 'a ByteArray of 3..4 symbolic bytes returned as one or several chunks (every listed chunking) and sent as the '
                          'base64 text of the whole; JSON and YAML'})
def binary_values(sx, p):
    """binary values travel as the base64 text of the whole byte string, however the value is chunked, and come back as the
    same bytes"""
    import base64
    cfg, shape = p
    pname, wrappers, as_list, validator = cfg
    app, server = get(*cfg)
    chunks = [sx.text('c%d' % i, n, lo=0, hi=255, bytes_=True) for i, n in enumerate(shape)]
    whole = b''
    for c in chunks:
        whole = whole + c
    # request: the documented text form of the whole value
    if sx.symbolic:
        from symx.stdmodels import b64encode_model
        from symx.strs import CStr
        text = CStr(list(b64encode_model(whole).c))          # the same characters as text
    else:
        text = base64.b64encode(whole).decode('ascii')
    ctx = deliver(sx, pname, app, server, {'blob': {'data': text}})
    got = ctx.in_object
    if got is None or len(got) != 1 or not isinstance(got[0], (list, tuple)):
        return False
    joined = b''
    for c in got[0]:
        joined = joined + c
    ok = [sx.eq(joined, whole)]
    # response: the value as the user function returns it, in chunks
    doc = respond(sx, pname, app, ctx, [tuple(chunks)])
    if not isinstance(doc, (list, tuple)) or len(doc) != 1:
        return False
    node = _denorm(doc[0])
    if wrappers:
        if not isinstance(node, dict) or list(node.keys()) != ['blobResponse']:
            return False
        node = node['blobResponse']
        if not isinstance(node, dict) or list(node.keys()) != ['blobResult']:
            return False
        node = node['blobResult']
    if sx.is_bytes(node):
        node = node.decode('ascii')
    ok.append(sx.And(sx.is_str(node), sx.eq(node, text)))
    return sx.And(*ok)


CHUNK_TEXT = u'Zo\xeb \u20ac \U0001F600 z'


@harness('C02', params=['json', 'yaml', 'msgpack'], functions=['spyne.protocol.json.JsonDocument.create_in_document',
                                                              'spyne.protocol.yaml.YamlDocument.create_in_document',
                                                              'spyne.protocol.msgpack.MessagePackDocument.create_in_document'],
         bounds={'request': 'a request body carrying raw (unescaped) 2-, 3- and 4-byte UTF-8 characters, handed to the protocol in two '
                            'chunks cut at every byte position (so every mid-character boundary is inside), or in one-byte chunks'})
def chunked_request_bodies(sx, pname):
    """the transport may hand the request over in blocks of any size: the text the function receives does not depend on
    where the blocks are cut"""
    import json as _j
    app, server = get(pname, False, False, 'soft')
    doc = {'f': {'a': 1, 's': CHUNK_TEXT}}
    if pname == 'json':
        data = _j.dumps(doc, ensure_ascii=False).encode('utf8')
    elif pname == 'yaml':
        import yaml
        data = yaml.dump(doc, allow_unicode=True).encode('utf8')
    else:
        import msgpack
        data = msgpack.packb(doc)
    cut = sx.choose('cut', ['bytewise'] + list(range(1, len(data))))
    chunks = [data[i:i + 1] for i in range(len(data))] if cut == 'bytewise' else [data[:cut], data[cut:]]
    prot = app.in_protocol
    ctx = MethodContext(server, MethodContext.SERVER)
    ctx.in_string = iter(chunks)
    ctx, = server.generate_contexts(ctx)
    if ctx.in_error is not None:
        return False
    server.get_in_object(ctx)
    if ctx.in_error is not None:
        return False
    got = ctx.in_object
    return got is not None and got[0] == 1 and got[1] == CHUNK_TEXT


def _int_text_eq(sx, text, v):
    from harness.common import int_literal
    lit, val = int_literal(sx, text)
    return sx.And(lit, sx.eq(val, v))


@harness('C02', params=[c for c in CONFIGS if not c[2] and c[0] != 'msgpack'], label=LABEL, functions=FUNCS,
         bounds={'shapes': 'object argument with no members set ({}), nested object with no members, empty arrays, '
                           'argument container with only the scalar set'})
def empty_containers(sx, cfg):
    """empty containers are values, not absences: an object with no members is delivered as an instance of
    its class, an empty array as an empty (or absent) array, and the other arguments are unaffected"""
    pname, wrappers, as_list, validator = cfg
    app, server = get(*cfg)
    a = sx.int('a', -99, 99)
    shape = sx.choose('shape', ['empty-object', 'empty-inner', 'empty-arrays', 'only-scalar'])
    w = (lambda t, b: {t: b}) if wrappers else (lambda t, b: b)
    if shape == 'empty-object':
        body = {'a': a, 'o': w('Obj', {})}
    elif shape == 'empty-inner':
        body = {'a': a, 'o': w('Obj', {'n': 1, 'inner': w('Inner', {})})}
    elif shape == 'empty-arrays':
        body = {'a': a, 'o': w('Obj', {'n': 1, 'arr': [], 'objs': []})}
    else:
        body = {'a': a}
    ctx = deliver(sx, pname, app, server, {'f': body})
    got = ctx.in_object
    if got is None or len(got) != 3:
        return False
    ok = [_leaf_eq(sx, 'int', got[0], a), got[1] is None]
    o = got[2]
    if shape == 'only-scalar':
        ok.append(o is None)
    else:
        ok.append(type(o).__name__ == 'Obj')
        if shape == 'empty-object':
            ok.append(o is not None and o.n is None and o.inner is None)
        elif shape == 'empty-inner':
            ok.append(o is not None and o.n == 1 and type(o.inner).__name__ == 'Inner' and o.inner.v is None)
        else:
            ok.append(o is not None and o.n == 1 and o.arr in (None, []) and o.objs in (None, []))
    return sx.And(*ok)


class DecSvc(Service):
    @rpc(Decimal, Array(Decimal), _returns=Decimal)
    def dec(ctx, d, ds):
        CAPTURE['args'] = (d, ds)
        return CAPTURE.get('ret')


DAPPS = {}


@harness('C02', params=[(p, v) for p in ('json', 'yaml', 'msgpack-bkey') for v in (None, 'soft')],
         label=lambda p: '%s validator=%s' % p, functions=FUNCS[:4] + ['spyne.protocol._inbase.InProtocolBase.decimal_from_unicode',
                                                                      'spyne.protocol._outbase.OutProtocolBase.decimal_to_unicode'],
         bounds={'decimals': 'sign, 2 integer digits and 34 fraction digits, all symbolic (more significant digits than the '
                             'default decimal context keeps), sent as text; as argument and as array element'})
def huge_decimals(sx, cfg):
    """decimals of any magnitude survive unchanged in both directions"""
    pname, validator = cfg
    if cfg not in DAPPS:
        cls = PROTOCOLS[pname]
        app = Application([DecSvc], 'tns', in_protocol=cls(validator=validator), out_protocol=cls())
        DAPPS[cfg] = (app, ServerBase(app))
    app, server = DAPPS[cfg]
    neg = sx.choose('neg', ['', '-'])
    ip = sx.digits('ip', 2)
    fp = sx.digits('fp', 34)
    sx.assume(sx.And(sx.Not(sx.eq(ip[:1], '0')), sx.Not(sx.eq(fp[33:], '0'))))
    text = neg + ip + '.' + fp
    ctx = deliver(sx, pname, app, server, {'dec': {'d': text, 'ds': [text]}})
    got = ctx.in_object
    if got is None or len(got) != 2 or got[0] is None or not got[1] or len(got[1]) != 1:
        return False
    want = sx.digits_value(ip + fp)
    if neg:
        want = -want
    if sx.symbolic:
        from symx.core import SInt
        vals = [SInt(x.value_scaled(-34)) for x in (got[0], got[1][0])]
    else:
        vals = [_exact_scaled(x, 34) for x in (got[0], got[1][0])]
    doc = respond(sx, pname, app, ctx, [got[0]])
    node = _denorm(doc[0])
    if pname.startswith('msgpack'):
        node = _as_text(sx, node)
    return sx.And(sx.eq(vals[0], want), sx.eq(vals[1], want), sx.is_str(node), sx.eq(node, text))


def _exact_scaled(d, k):
    """d * 10**k as an exact integer (no decimal context involved)"""
    sign, digits, exp = d.as_tuple()
    n = int(''.join(map(str, digits)) or '0')
    e = exp + k
    if e < 0:
        q, r = divmod(n, 10 ** (-e))
        if r:
            return None
        n = q
    else:
        n = n * 10 ** e
    return -n if sign else n


BARE = {'bint': 'int', 'bints': ['int'], 'binner': 'Inner', 'binners': ['Inner'], 'bwhen': 'datetime', 'bgrid': [['int']], 'btime': 'time'}


@harness('C02', params=[(c, m) for c in CONFIGS for m in sorted(BARE)], label=lambda p: LABEL(p[0]) + ' method=' + p[1], functions=FUNCS,
         bounds={'signatures': 'bare body style with an integer, an array of 0..2 integers, an object, an array of 0..2 objects, a DateTime (years 0001..9999, naive / UTC / any offset), an array of arrays of integers, a Time (every time of day to the microsecond); the '
                               'argument under the method key in the same conventions as a member of that type',
                 'values': 'unbounded integer, strings of one arbitrary code point'})
def bare_signatures(sx, p):
    """a method in the bare body style - its message is the argument itself - receives the value sent under the method key and
    its return value is the response document, under every wrapper / complex_as / validator setting"""
    cfg, meth = p
    pname, wrappers, as_list, validator = cfg
    app, server = get(*cfg)
    wire = 'msgpack' if pname.startswith('msgpack') else None
    typ = BARE[meth]
    if typ == 'datetime':
        # every instant python can hold (years 0001..9999), naive, UTC or with an offset, as its ISO 8601 text
        zone = sx.choose('zone', ['naive', 'utc', 'offset'])
        # (with an offset: years 0002..9998, so that the instant lies inside the type's default UTC range ge/le)
        t = sx.datetime('t', tz=zone, ymin=2, ymax=9998) if zone == 'offset' else sx.datetime('t', tz=zone)
        text = t.isoformat()
        ctx = deliver(sx, pname, app, server, {meth: text})
        got = ctx.in_object
        if got is None:
            return False
        same = sx.And(sx.eq(got.replace(tzinfo=None), t.replace(tzinfo=None)), sx.eq(sx.offset_minutes(got), sx.offset_minutes(t))
                      if sx.offset_minutes(t) is not None else sx.offset_minutes(got) is None)
        doc = respond(sx, pname, app, ctx, [got])
        if not isinstance(doc, (list, tuple)) or len(doc) != 1:
            return False
        node = _denorm(doc[0])
        if wire == 'msgpack':
            node = _as_text(sx, node)
        return sx.And(same, sx.is_str(node), sx.eq(node, text))
    if typ == 'time':
        # every time of day to the microsecond, as its ISO 8601 text
        t = sx.time('t')
        text = t.isoformat()
        ctx = deliver(sx, pname, app, server, {meth: text})
        got = ctx.in_object
        if got is None:
            return False
        ok = [sx.eq(got.hour, t.hour), sx.eq(got.minute, t.minute), sx.eq(got.second, t.second), sx.eq(got.microsecond, t.microsecond)]
        doc = respond(sx, pname, app, ctx, [got])
        if not isinstance(doc, (list, tuple)) or len(doc) != 1:
            return False
        node = _denorm(doc[0])
        if wire == 'msgpack':
            node = _as_text(sx, node)
        ok += [sx.is_str(node), sx.eq(node, text)]
        if not sx.symbolic:
            # (the fraction is read through binary floating point: the replay of each witness also walks a stride of
            # 4096 microsecond values around it through the same reader, on the real interpreter)
            import datetime as _d
            base = (t.microsecond // 4096) * 4096
            for us in range(base, min(base + 4096, 1000000)):
                v = _d.time(t.hour, t.minute, t.second, us)
                if app.in_protocol.from_unicode(Time, v.isoformat()) != v:
                    return False
        return sx.And(*ok)
    if typ == [['int']]:
        # an array of arrays: rows of 2, 0 and 1 items (or no rows at all)
        shape = sx.choose('rows', [(2, 0, 1), (1,), ()])
        val = [[sx.int('x%d_%d' % (r, c), -2 ** 66, 2 ** 66) for c in range(k)] for r, k in enumerate(shape)]
        ctx = deliver(sx, pname, app, server, {meth: [[enc_int(sx, x, wire) for x in row] for row in val]})
        got = ctx.in_object
        if got is None or len(got) != len(val) or any(g is None or len(g) != len(v) for g, v in zip(got, val)):
            return False
        ok = [_leaf_eq(sx, 'int', g, v) for grow, vrow in zip(got, val) for g, v in zip(grow, vrow)]
        doc = respond(sx, pname, app, ctx, [got])
        if not isinstance(doc, (list, tuple)) or len(doc) != 1:
            return False
        node = _denorm(doc[0])
        if not isinstance(node, list) or len(node) != len(val) or any(not isinstance(r, list) or len(r) != len(v) for r, v in zip(node, val)):
            return False
        ok += [_leaf_eq(sx, 'int', nd, v, wire) for nrow, vrow in zip(node, val) for nd, v in zip(nrow, vrow)]
        return sx.And(*ok)
    if isinstance(typ, list):
        n = sx.choose('n', [2, 1, 0])
        val = [sx.int('x%d' % i, -2 ** 66, 2 ** 66) if typ[0] == 'int' else mk_inner(sx, 'o%d' % i, wire is None) for i in range(n)]
    else:
        val = sx.int('x', -2 ** 66, 2 ** 66) if typ == 'int' else mk_inner(sx, 'o', wire is None)

    def enc(v, t, top):
        if isinstance(t, list):
            return [enc(x, t[0], False) for x in v]
        if t == 'int':
            return enc_int(sx, v, wire)
        # the method key is the wrapper of a bare object; array elements carry their own
        return ref_encode(v, t, wrappers and not top, as_list, sx, wire)
    ctx = deliver(sx, pname, app, server, {meth: enc(val, typ, True)})
    got = ctx.in_object
    ok = [native_matches(sx, typ, got, val)]
    # the return value: the same natives go back out
    doc = respond(sx, pname, app, ctx, [got])
    if not isinstance(doc, (list, tuple)) or len(doc) != 1:
        return False
    node = _denorm(doc[0])
    if isinstance(typ, list):
        if not isinstance(node, list) or len(node) != len(val):
            return False
        for nd, v in zip(node, val):
            ok.append(_leaf_eq(sx, 'int', nd, v, wire) if typ[0] == 'int' else ref_decode_matches(sx, nd, 'Inner', v, wrappers, as_list, wire))
    elif typ == 'int':
        ok.append(_leaf_eq(sx, 'int', node, val, wire))
    else:
        ok.append(ref_decode_matches(sx, node, 'Inner', val, wrappers, as_list, wire))
    return sx.And(*ok)

"""C09 — faults on the wire (XML, SOAP 1.1, JSON; ServerBase and WSGI): same code/message/detail,
generic fault for other exceptions, nothing leaked, documented HTTP status."""
from symx.api import harness
from harness import pipeline as P, pipeline_oracles as O

PARAMS = [(proto, tr) for proto in ('json', 'xml', 'soap11', 'http-json', 'http-soap11', 'soap11-json', 'json-jsonp')
          for tr in ('server', 'wsgi-chunked') if not (P.in_of(proto) == 'http' and tr == 'server')]


@harness('C09', params=PARAMS, label=lambda p: '%s %s' % p,
         functions=['spyne.application.Application.process_request', 'spyne.protocol.xml.XmlDocument.fault_to_parent',
                    'spyne.protocol.xml.XmlDocument._fault_to_parent_impl',
                    'spyne.protocol.dictdoc.hier.HierDictDocument._fault_to_doc',
                    'spyne.server.wsgi.WsgiApplication.handle_error'],
         bounds={'schedule': 'user function / listeners raising a Fault (with and without a two-key nested detail), '
                             'or a non-Fault exception carrying a secret; responses decoded by a reference decoder'})
def fault_on_the_wire(sx, p):
    proto, transport = p
    sched, rec = P.run_scenario(sx, proto, transport)
    if sched['request'] != 'valid' or sched['stage'] in ('none',):
        sx.outside('not a faulting schedule')
    if sched['stage'] == 'unserializable':
        sx.outside('an unserialisable return value is not a raised exception (covered by C14)')
    problems = O.check_fault_wire(sched, rec)
    sx.observe('problems', problems)
    return not problems


# ---------------------------------------------------------------- exceptions that surface while the response is produced
from spyne import Application, Service, rpc
from spyne.model.primitive import Integer, Unicode
from spyne.model.complex import Iterable
from spyne.model.fault import Fault
from spyne.protocol.json import JsonDocument
from spyne.protocol.xml import XmlDocument
from spyne.protocol.soap import Soap11, Soap12
from spyne.protocol.yaml import YamlDocument
from spyne.server.wsgi import WsgiApplication

LAZY = {}


class LazySvc(Service):
    @rpc(Integer, _returns=Iterable(Unicode))
    def lazy(ctx, n):
        for i in range(n):
            yield u'item%d' % i
        k = LAZY.get('kind')
        if k == 'exception':
            raise RuntimeError('lazy secret 4711')
        if k == 'fault':
            raise Fault('Client.Lazy', u'lazy fault')
        yield u'last'


LAZY_APPS = {}
LAZY_REQ = {'json': lambda n: (b'{"lazy": {"n": %d}}' % n, 'application/json'),
            'yaml': lambda n: (b'lazy: {n: %d}' % n, 'text/yaml'),
            'xml': lambda n: (b'<lazy xmlns="tns"><n>%d</n></lazy>' % n, 'text/xml'),
            'soap11': lambda n: (('<s:Envelope xmlns:s="%s"><s:Body><lazy xmlns="tns"><n>%d</n></lazy></s:Body></s:Envelope>'
                                  % (P.SOAP_ENV, n)).encode(), 'text/xml'),
            'soap12': lambda n: (('<s:Envelope xmlns:s="http://www.w3.org/2003/05/soap-envelope"><s:Body><lazy xmlns="tns"><n>%d</n></lazy>'
                                  '</s:Body></s:Envelope>' % n).encode(), 'application/soap+xml')}


@harness('C09', params=sorted(LAZY_REQ), functions=['spyne.server.wsgi.WsgiApplication.handle_rpc',
                                                   'spyne.server.wsgi.WsgiApplication.handle_error',
                                                   'spyne.application.get_fault_string_from_exception'],
         bounds={'schedule': 'a generator method that yields 0, 1 or 2 items and then raises a non-Fault exception carrying a secret, '
                             'raises a Fault, or finishes; chunked or not; five protocols over WSGI'})
def lazily_raised(sx, proto):
    """an exception that only surfaces while the response is being produced is treated like any other: a Fault arrives as
    it is, anything else as Server / 'Internal Error' with nothing of its text, and nothing escapes the WSGI callable"""
    import io
    kind = sx.choose('kind', ['exception', 'fault', 'none'])
    n = sx.choose('items_before', [0, 1, 2])
    chunked = sx.choose('chunked', [True, False])
    if proto not in LAZY_APPS:
        Pc = {'json': JsonDocument, 'yaml': YamlDocument, 'xml': XmlDocument, 'soap11': Soap11, 'soap12': Soap12}[proto]
        LAZY_APPS[proto] = Application([LazySvc], 'tns', in_protocol=Pc(), out_protocol=Pc())
    LAZY['kind'] = kind
    body, ctype = LAZY_REQ[proto](n)
    environ = {'REQUEST_METHOD': 'POST', 'PATH_INFO': '/', 'QUERY_STRING': '', 'SERVER_NAME': 'localhost', 'SERVER_PORT': '80',
               'wsgi.url_scheme': 'http', 'wsgi.input': io.BytesIO(body), 'CONTENT_LENGTH': str(len(body)), 'CONTENT_TYPE': ctype}
    status = []
    out = b''.join(WsgiApplication(LAZY_APPS[proto], chunked=chunked)(environ, lambda s, h, e=None: status.append(s)))
    sx.observe('status', status)
    sx.observe('body', out[:300])
    if kind == 'none':
        return status[0].startswith('200') and b'last' in out
    if b'4711' in out or b'secret' in out or b'RuntimeError' in out or b'Traceback' in out:
        return False
    if kind == 'fault':
        code_ok = (b'Sender' in out and b'Lazy' in out) if proto == 'soap12' else b'Client.Lazy' in out    # SOAP 1.2: Sender + subcode
        return code_ok and b'lazy fault' in out and not status[0].startswith('200')
    server_code = b'Receiver' if proto == 'soap12' else b'Server'        # SOAP 1.2 spells the Server family 'Receiver'
    return status[0].startswith('500') and b'Internal Error' in out and (server_code in out) and b'InternalError' not in out


# ---------------------------------------------------------------- fault detail in the XML family, SOAP 1.2 included
DET = {}


class DetailSvc(Service):
    @rpc(Integer, _returns=Integer)
    def fail(ctx, n):
        raise Fault(DET['code'], u'custom message', detail=DET['detail'])


DETAIL_APPS = {}
DETAILS = {'none': None, 'empty': {}, 'one key': {'why': {'k': 'v'}}, 'two keys': {'first': {'k': 'v', 'zero': 0, 'no': False}, 'second': 'w'},
           'three flat keys': {'a': 'x', 'b': 'y', 'c': 'z'}}


@harness('C09', params=['xml', 'soap11', 'soap12'], functions=['spyne.protocol.xml.XmlDocument._fault_to_parent_impl',
                                                              'spyne.protocol.soap.soap12.Soap12._fault_to_parent_impl',
                                                              'spyne.util.etreeconv.root_dict_to_etree'],
         bounds={'fault': 'Client or Server family code with a sub-code; detail: none, empty, one nested key, two keys with falsy '
                          'leaves, three flat keys; chunked or not'})
def xml_fault_detail(sx, proto):
    """a raised Fault arrives with its code family, message and every leaf of its detail, whatever the shape of the detail
    dict, in XmlDocument, SOAP 1.1 and SOAP 1.2"""
    import io
    shape = sx.choose('detail', sorted(DETAILS))
    DET['code'] = sx.choose('code', ['Client.Custom.Sub', 'Server.Custom'])
    DET['detail'] = DETAILS[shape]
    chunked = sx.choose('chunked', [True, False])
    if proto not in DETAIL_APPS:
        Pc = {'xml': XmlDocument, 'soap11': Soap11, 'soap12': Soap12}[proto]
        DETAIL_APPS[proto] = Application([DetailSvc], 'tns', in_protocol=Pc(), out_protocol=Pc())
    body, ctype = {'xml': (b'<fail xmlns="tns"><n>1</n></fail>', 'text/xml'),
                   'soap11': (('<s:Envelope xmlns:s="%s"><s:Body><fail xmlns="tns"><n>1</n></fail></s:Body></s:Envelope>' % P.SOAP_ENV).encode(), 'text/xml'),
                   'soap12': (b'<s:Envelope xmlns:s="http://www.w3.org/2003/05/soap-envelope"><s:Body><fail xmlns="tns"><n>1</n></fail></s:Body></s:Envelope>',
                              'application/soap+xml')}[proto]
    environ = {'REQUEST_METHOD': 'POST', 'PATH_INFO': '/', 'QUERY_STRING': '', 'SERVER_NAME': 'localhost', 'SERVER_PORT': '80',
               'wsgi.url_scheme': 'http', 'wsgi.input': io.BytesIO(body), 'CONTENT_LENGTH': str(len(body)), 'CONTENT_TYPE': ctype}
    status = []
    out = b''.join(WsgiApplication(DETAIL_APPS[proto], chunked=chunked)(environ, lambda s, h, e=None: status.append(s)))
    sx.observe('body', out[-300:])
    family = DET['code'].split('.')[0].encode()
    if proto == 'soap12':
        family = {b'Client': b'Sender', b'Server': b'Receiver'}[family]
    ok = family in out and b'custom message' in out and b'Internal Error' not in out

    def leaves(d):
        for k, v in (d or {}).items():
            if isinstance(v, dict):
                for x in leaves(v):
                    yield x
            else:
                yield k, v
    for k, v in leaves(DETAILS[shape]):
        ok = ok and ('<%s>%s</%s>' % (k, v, k)).encode() in out
    return bool(ok)


# ---------------------------------------------------------------- the Spyne client on the receiving end (SOAP)
from spyne.client import RemoteProcedureBase as _RPB


class _FaultLoopback(_RPB):
    """in-process transport: request bytes through the real server pipeline, response bytes back into the client"""
    def __call__(self, *args, **kwargs):
        from spyne.server import ServerBase as _SB
        from spyne.context import MethodContext as _MC
        ctx = self.contexts[0]
        self.get_out_object(ctx, args, kwargs)
        self.get_out_string(ctx)
        server = _SB(self.app)
        sctx = _MC(server, _MC.SERVER)
        sctx.in_string = [b''.join(ctx.out_string)]
        sctx, = server.generate_contexts(sctx)
        server.get_in_object(sctx)
        if sctx.in_error is None:
            server.get_out_object(sctx)
        server.get_out_string(sctx)
        ctx.in_string = [b''.join(sctx.out_string)]
        self.get_in_object(ctx)
        return ctx


CLIENT_CODES = ['Client', 'Client.Custom.Sub', 'Server', 'Server.Busy.Now']
_CLAPPS = {}
CL = {}


class _ClSvc(Service):
    @rpc(Integer, _returns=Integer)
    def plain(ctx, a):
        if CL.get('kind') == 'fault':
            raise Fault(CL['code'], CL['msg'])
        if CL.get('kind') == 'exception':
            raise KeyError('client secret 4711')
        return a


@harness('C09', params=[(p, k) for p in ('soap11', 'soap12') for k in ('fault', 'exception', 'none')], label=lambda p: '%s %s' % p,
         functions=['spyne.protocol.soap.soap12.Soap12.fault_from_element', 'spyne.protocol.soap.soap12.Soap12.generate_faultcode',
                    'spyne.protocol.soap.soap11.Soap11.deserialize', 'spyne.client._base.RemoteProcedureBase.get_in_object'],
         bounds={'call': 'one method called through the Spyne client (loopback transport); the function raises a Fault with one of four '
                         'dotted codes and one of three messages (markup characters, non-ASCII, surrounding blanks), raises a KeyError carrying a secret, or returns'})
def spyne_client_receives_fault(sx, p):
    """the Spyne client hands the caller the fault the function raised - same code (the envelope prefix of the wire form
    is not judged), same message - the generic Server fault for any other exception, and the value for a normal return"""
    proto, kind = p
    if proto not in _CLAPPS:
        Pc = {'soap11': Soap11, 'soap12': __import__('spyne.protocol.soap', fromlist=['Soap12']).Soap12}[proto]
        _CLAPPS[proto] = Application([_ClSvc], 'tns', in_protocol=Pc(), out_protocol=Pc())
    app = _CLAPPS[proto]
    code = sx.choose('code', CLIENT_CODES)
    msg = sx.choose('msg', [u'no', u'a<\xe9 &amp;', u' padded '])      # (the document goes through lxml: concrete texts)
    CL.clear()
    CL.update(kind=kind, code=code, msg=msg)
    ctx = _FaultLoopback('http://x/', app, 'plain')(3)
    err = ctx.in_error
    if kind == 'none':
        return err is None and sx.eq(ctx.in_object[0] if isinstance(ctx.in_object, (list, tuple)) else ctx.in_object, 3)
    if err is None:
        return False
    # the wire vocabulary of the envelope is not judged: the prefix of the code QName, SOAP 1.2's Sender / Receiver for
    # Client / Server, and the white space SOAP 1.2 readers trim around the Reason text
    got = err.faultcode.split(':')[-1] if isinstance(err.faultcode, str) else err.faultcode
    if proto == 'soap12' and isinstance(got, str):
        head, _, rest = got.partition('.')
        got = {'Sender': 'Client', 'Receiver': 'Server'}.get(head, head) + _ + rest
        msg = msg.strip()
    if kind == 'exception':
        return got == 'Server' and 'secret' not in repr((err.faultstring, err.detail)) and err.faultstring == 'Internal Error'
    return got == code and err.faultstring == msg

"""C09 — faults on the wire (XML, SOAP 1.1, JSON; ServerBase and WSGI): same code/message/detail,
generic fault for other exceptions, nothing leaked, documented HTTP status."""
from symx.api import harness
from harness import pipeline as P, pipeline_oracles as O

PARAMS = [(proto, tr) for proto in ('json', 'xml', 'soap11', 'http-json', 'http-soap11', 'soap11-json', 'json-jsonp')
          for tr in ('server', 'wsgi-chunked') if not (P.in_of(proto) == 'http' and tr == 'server')]


@harness('C09', params=PARAMS, label=lambda p: '%s %s' % p,
         functions=['spyne.application.Application.process_request', 'spyne.protocol.xml.XmlDocument.fault_to_parent',
                    'spyne.protocol.xml.XmlDocument._fault_to_parent_impl',
                    'spyne.protocol.dictdoc.hier.HierDictDocument._fault_to_doc',
                    'spyne.server.wsgi.WsgiApplication.handle_error'],
         bounds={'schedule': 'user function / listeners raising a Fault (with and without a two-key nested detail), '
                             'or a non-Fault exception carrying a secret; responses decoded by a reference decoder'})
def fault_on_the_wire(sx, p):
    proto, transport = p
    sched, rec = P.run_scenario(sx, proto, transport)
    if sched['request'] != 'valid' or sched['stage'] in ('none',):
        sx.outside('not a faulting schedule')
    if sched['stage'] == 'unserializable':
        sx.outside('an unserialisable return value is not a raised exception (covered by C14)')
    problems = O.check_fault_wire(sched, rec)
    sx.observe('problems', problems)
    return not problems

"""C13 — bounded request-body reader of the WSGI transport."""
from symx.api import harness

from spyne import Application, Service, rpc
from spyne.model.primitive import Integer
from spyne.protocol.http import HttpRpc
from spyne.server.wsgi import WsgiApplication
from spyne.error import RequestTooLongError


class _Svc(Service):
    @rpc(Integer, _returns=Integer)
    def f(ctx, a):
        return a


APP = Application([_Svc], 'tns', in_protocol=HttpRpc(), out_protocol=HttpRpc())


class Stream(object):
    """wsgi.input stub: read(n) returns, per PEP 3333, any number of bytes 0 <= r <= n
    (for n < 0: everything that is left, modelled as `rest` bytes)"""

    def __init__(self, sx, k, rest):
        self.sx, self.k, self.rest = sx, k, rest
        self.requests = []
        self.returned = []

    def read(self, n=-1):
        sx = self.sx
        i = len(self.requests)
        self.requests.append(n)
        if i >= self.k:
            r = sx.blob('eof%d' % i, 0)          # EOF
            self.returned.append(0)
            return r
        b = sx.blob('r%d' % i)
        ln = sx.length(b)
        if (n < 0) if not sx.symbolic else bool(n < 0):
            sx.assume(sx.eq(ln, self.rest))
        else:
            sx.assume(ln <= n)
        self.returned.append(ln)
        return b


FUNCS = ['spyne.server.wsgi.WsgiApplication.__wsgi_input_to_iterable', 'spyne.server.http.HttpBase.__init__']


_RP = lambda ks: [(k, cl) for k in ks for cl in ('absent', 'empty', 'number')]


@harness('C13', tier_params={'quick': _RP((0, 1, 2, 3)), 'thorough': _RP((0, 1, 2, 3, 4, 5))},
         label=lambda p: 'chunks<=%d content-length=%s' % p, functions=FUNCS,
         bounds={'stream': 'delivers at most K <= 3 non-empty chunks of any sizes 0 <= r <= requested, then EOF (K <= 5 in the thorough tier)',
                 'settings': 'max_content_length 0..99999, block_length 1..99999 (symbolic)',
                 'CONTENT_LENGTH': 'absent, empty, or the decimal text of any integer -99..999999'})
def body_reader(sx, p):
    """at most max_content_length bytes are ever requested/read; a declared length above the limit is
    refused before the first read; a declared length within the limit is never refused"""
    k, clkind = p
    maxlen = sx.int('max_content_length', 0, 99999)
    blocklen = sx.int('block_length', 1, 99999)
    # the settings go through the constructor, as a deployment would pass them (0 is a legal limit: accept no body at all)
    w = WsgiApplication(APP, max_content_length=maxlen, block_length=blocklen)
    if not (sx.eq(w.max_content_length, maxlen) is True or sx.symbolic):
        return False
    rest = sx.int('rest', 0, 999999)
    stream = Stream(sx, k, rest)
    env = {'wsgi.input': stream}
    declared = None
    if clkind == 'empty':
        env['CONTENT_LENGTH'] = ''
        declared = 0
    elif clkind == 'number':
        declared = sx.int('content_length', -99, 999999)
        env['CONTENT_LENGTH'] = sx.render(declared)
    refused = False
    total = 0
    try:
        for chunk in w._WsgiApplication__wsgi_input_to_iterable(env):
            total = total + sx.length(chunk)
    except RequestTooLongError:
        refused = True
    sx.observe('refused', refused)
    sx.observe('reads', len(stream.requests))
    ok = [total <= maxlen, sx.eq(w.max_content_length, maxlen), sx.eq(w.block_length, blocklen)]
    acc = 0
    for n, r in zip(stream.requests, stream.returned):
        ok.append(n >= 0)                      # a negative size would read the whole stream
        ok.append(acc + n <= maxlen)
        acc = acc + r
    if declared is not None:
        too_long = declared > maxlen
        if refused:
            ok.append(too_long)
            ok.append(len(stream.requests) == 0)
        else:
            ok.append(sx.Not(too_long))
    else:
        ok.append(not refused)
    return sx.And(*ok)

"""C04 — user code only receives values of the declared types (xsi:type retagging, wrapper keys,
JSON value kinds).  Exceptions that are not faults are C10's concern and are declared outside
this harness; here the oracle is: no value of an inadmissible type is delivered."""
import datetime
import decimal
from symx.api import harness
from harness.common import mk_element, run_soft, is_client_validation_fault, fake_ctx, XSI_NS, XSD_NS

from spyne import Application, Service, rpc, ComplexModel
from spyne.model.primitive import Integer, Unicode, Boolean, Decimal, Date, Double
from spyne.model.complex import Array, XmlAttribute
from spyne.model.fault import Fault
from spyne.protocol.xml import XmlDocument
from spyne.protocol.soap import Soap11
from spyne.protocol.json import JsonDocument


class Base(ComplexModel):
    __namespace__ = 'tns'
    a = Integer
    u = Unicode


class Sub(Base):
    __namespace__ = 'tns'
    b = Integer


class SubSub(Sub):
    __namespace__ = 'tns'
    c = Unicode


class Other(ComplexModel):
    __namespace__ = 'tns'
    z = Unicode
    label = XmlAttribute(Unicode)        # outside XML an attribute member is a plain text member
    rank = XmlAttribute(Integer)


class OtherSub(Other):         # a second, unrelated hierarchy that has subclasses of its own
    __namespace__ = 'tns'
    y = Integer


class Holder(ComplexModel):
    __namespace__ = 'tns'
    other = Other
    base = Base
    n = Integer
    s = Unicode
    flag = Boolean
    when = Date
    bases = Array(Base)


class _Svc(Service):
    @rpc(Base, Other, Holder, _returns=Integer)
    def f(ctx, x, o, h):
        return 1


APP = Application([_Svc], 'tns', in_protocol=XmlDocument(validator='soft'), out_protocol=XmlDocument())
CTX = fake_ctx(APP)
XPROTS = {'XmlDocument': XmlDocument(app=APP), 'XmlDocument soft': XmlDocument(app=APP, validator='soft'),
          'Soap11 soft': Soap11(app=APP, validator='soft'),
          # with the schema validator only the body entry is validated by libxml2: header entries (and anything else that
          # reaches from_element directly) depend on from_element's own check
          'Soap11 lxml': Soap11(app=APP, validator='lxml'), 'XmlDocument lxml': XmlDocument(app=APP, validator='lxml')}
NSMAP = {'tns': 'tns', None: 'tns', 'xs': XSD_NS, 'q': 'urn:elsewhere'}
XSI_TYPE = '{%s}type' % XSI_NS


NSMAPS = {'default=tns': {'tns': 'tns', None: 'tns', 'xs': XSD_NS, 'q': 'urn:elsewhere'},
          'default=foreign': {'tns': 'tns', None: 'urn:elsewhere', 'xs': XSD_NS},
          'no default': {'tns': 'tns', 'xs': XSD_NS}}


def resolvable_keys(nsmap):
    """every 'prefix:Name' / 'Name' spelling that resolves, in this scope, to a class registered in the interface"""
    out = {}
    for key, cls in APP.interface.classes.items():
        if not key.startswith('{') or '}' not in key:
            continue
        ns, name = key[1:].split('}', 1)
        for pfx, uri in nsmap.items():
            if uri == ns:
                out[(pfx + ':' + name) if pfx else name] = cls
    return out


RESOLVABLE = dict((k, resolvable_keys(m)) for k, m in NSMAPS.items())
NSMAP = NSMAPS['default=tns']


def unrelated_xsi(xt, scope='default=tns'):
    """known-finding predicate: in this scope the xsi:type text names a registered class that does not derive from Base"""
    from symx.symctx import SymCtx
    from symx.api import ConcCtx
    sx = SymCtx() if not isinstance(xt, str) else ConcCtx({})
    unrelated = sorted(k for k, c in RESOLVABLE[scope].items() if not (isinstance(c, type) and issubclass(c, Base)))
    return sx.Or(*[sx.eq(xt, k) for k in unrelated if len(k) == len(xt)])


LENS = sorted(set(len(k) for m in RESOLVABLE.values() for k in m if len(k) <= 12))


DECLARED = {'Base': Base, 'Sub': Sub}


@harness('C04', tier_params={'quick': [(pn, L, sc, dc) for pn in sorted(XPROTS) for L in LENS for sc in sorted(NSMAPS) for dc in sorted(DECLARED)],
                             'thorough': [(pn, L, sc, dc) for pn in sorted(XPROTS) for L in range(1, 15) for sc in sorted(NSMAPS) for dc in sorted(DECLARED)]},
         label=lambda p: '%s len=%d %s declared=%s' % p,
         functions=['spyne.protocol.xml.XmlDocument.from_element', 'spyne.protocol.xml.XmlDocument.complex_from_element'],
         bounds={'xsi:type': 'every string of the lengths of the resolvable type names (<= 12 printable chars); three '
                             'namespace scopes: default namespace = target namespace, default namespace foreign, no default'})
def xsi_type_retag(sx, p):
    """a Base-typed element retagged with any xsi:type yields a Base (or registered subclass) instance or a
    validation fault - never an instance of an unrelated class or a primitive, in any namespace scope"""
    pname, L, scope, dc = p
    decl = DECLARED[dc]         # the declared class may itself be a derived class: its ancestors are not admissible either
    prot = XPROTS[pname]
    nsmap = NSMAPS[scope]
    xt = sx.text('xt', L)
    el = mk_element(sx, '{tns}x', attrib={XSI_TYPE: xt}, nsmap=nsmap,
                    children=[mk_element(sx, '{tns}a', text='5', nsmap=nsmap)])
    out = run_soft(lambda: prot.from_element(CTX, decl, el))
    sx.observe('accepted', out.accepted)
    if not out.accepted:
        return is_client_validation_fault(out.fault)
    sx.observe('type', type(out.value).__name__)
    # accepted: whatever the name resolved to, the value is a Base or an instance of a subclass of it.  (How leniently a
    # QName is resolved is not C04's concern as long as no unrelated type can come out of it: the stricter "resolves in
    # the scope of the element" conjunct was dropped when spyne started to refuse unrelated classes, see DESIGN section 12.)
    return out.value is None or isinstance(out.value, decl)


# ---------------------------------------------------------------- JSON value kinds
JSOFT = JsonDocument(app=APP, validator='soft', ignore_wrappers=True)
JWRAP = JsonDocument(app=APP, validator='soft', ignore_wrappers=False)

ADMISSIBLE = {'n': (int,), 's': (str,), 'flag': (bool,), 'when': (datetime.date,), 'base': (Base,), 'bases': (list,)}
KINDS = ['none', 'bool', 'int', 'float', 'str', 'list', 'dict']


def _value_of_kind(sx, kind, tag):
    if kind == 'none':
        return None
    if kind == 'bool':
        return sx.bool(tag + '_b')
    if kind == 'int':
        return sx.int(tag + '_i', -3, 3)
    if kind == 'float':
        return sx.choose(tag + '_f', [1.5, 2.0, -0.0, 1e30])       # with and without a fractional part
    if kind == 'str':
        n = sx.choose(tag + '_len', [0, 1, 10])
        if n == 10:
            return '2001-02-0' + sx.text(tag + '_s', 1, alphabet='0123456789x')
        return sx.text(tag + '_s', n, alphabet='a1') if n else ''
    if kind == 'list':
        return [sx.int(tag + '_li', 0, 9)] if sx.choose(tag + '_ln', [0, 1]) else []
    return {'a': sx.int(tag + '_da', 0, 9)} if sx.choose(tag + '_dn', [0, 1]) else {}


def _admissible(v, types):
    if v is None:
        return True      # null is delivered as None
    from symx.core import Sym
    if isinstance(v, Sym):
        from symx.shim import pytype_of
        t = pytype_of(v)
        return any(issubclass(t, x) for x in types) and not (t is bool and bool not in types and int in types and False)
    # (a bool is an instance of int: True in an Integer slot is a value of the declared native type)
    return isinstance(v, types)


@harness('C04', params=[(slot, kind) for slot in ('n', 's', 'flag', 'when', 'base', 'bases') for kind in KINDS],
         label=lambda p: 'slot=%s kind=%s' % p,
         functions=['spyne.protocol.dictdoc.hier.HierDictDocument._doc_to_object',
                    'spyne.protocol.dictdoc.hier.HierDictDocument._from_dict_value',
                    'spyne.protocol.dictdoc.hier.HierDictDocument.validate',
                    'spyne.protocol.json.JsonDocument._ret_number', 'spyne.protocol.json.JsonDocument._ret_bool'],
         bounds={'document': 'one member of a 6-member object carries a value of each JSON kind (payload symbolic)'})
def json_kinds(sx, p):
    """whatever JSON kind a member carries, the delivered value has the declared native type (or the
    request is refused with a validation fault)"""
    slot, kind = p
    v = _value_of_kind(sx, kind, 'v')
    doc = {'n': 1, 's': 'x', slot: v}
    try:
        out = run_soft(lambda: JSOFT._doc_to_object(CTX, Holder, doc, JSOFT.validator))
    except Exception as e:
        sx.outside('non-fault exception %s escapes (counted under C10)' % type(e).__name__)
    sx.observe('accepted', out.accepted)
    if not out.accepted:
        return is_client_validation_fault(out.fault)
    got = getattr(out.value, slot)
    if slot == 'bases' and got is not None:
        return isinstance(got, list) and all(x is None or isinstance(x, Base) for x in got)
    return _admissible(got, ADMISSIBLE[slot])


NESTED = {'base.a': (int,), 'base.u': (str,), 'bases[0].a': (int,), 'bases[0].u': (str,), 'bases[0]': (Base,),
          'other.label': (str,), 'other.rank': (int,)}


@harness('C04', params=[(pos, kind) for pos in sorted(NESTED) for kind in KINDS], label=lambda p: 'pos=%s kind=%s' % p,
         functions=['spyne.protocol.dictdoc.hier.HierDictDocument._doc_to_object',
                    'spyne.protocol.dictdoc.hier.HierDictDocument._from_dict_value',
                    'spyne.protocol.dictdoc.hier.HierDictDocument.validate'],
         bounds={'document': 'a field of a nested object, a field of an array element, or an array element itself '
                             'carries a value of each JSON kind (payload symbolic)'})
def json_kinds_nested(sx, p):
    """the same guarantee at nested positions: inside a nested object and inside array elements"""
    pos, kind = p
    v = _value_of_kind(sx, kind, 'v')
    if pos.startswith('other.'):
        doc = {'other': {pos[6:]: v}}
    elif pos.startswith('base.'):
        doc = {'base': {pos[5:]: v}}
    elif pos == 'bases[0]':
        doc = {'bases': [v, {'a': 1}]}
    else:
        doc = {'bases': [{pos.split('.')[1]: v}, {'a': 1}]}
    try:
        out = run_soft(lambda: JSOFT._doc_to_object(CTX, Holder, doc, JSOFT.validator))
    except Exception as e:
        sx.outside('non-fault exception %s escapes (counted under C10)' % type(e).__name__)
    sx.observe('accepted', out.accepted)
    if not out.accepted:
        return is_client_validation_fault(out.fault)
    h = out.value
    if pos.startswith('other.'):
        if not isinstance(h.other, Other):
            return _admissible(h.other, (Other,))
        got = getattr(h.other, pos[6:])
    elif pos.startswith('base.'):
        got = getattr(h.base, pos[5:]) if isinstance(h.base, Base) else h.base
        if not isinstance(h.base, Base):
            return _admissible(h.base, (Base,))
    elif pos == 'bases[0]':
        got = h.bases[0] if h.bases else None
    else:
        e0 = h.bases[0] if h.bases else None
        if not isinstance(e0, Base):
            return _admissible(e0, (Base,))
        got = getattr(e0, pos.split('.')[1])
    return _admissible(got, NESTED[pos])


@harness('C04', params=[4, 3, 6, 5], label=lambda n: 'keylen=%d' % n,
         functions=['spyne.protocol.dictdoc.hier.HierDictDocument._doc_to_object'],
         bounds={'wrapper key': 'any string of 3..6 letters (covers Base, Sub, SubSub, Other, Holder and near misses)'})
def json_wrapper_key(sx, n):
    """with wrappers on, the wrapper key selects Base or a registered subclass of it, or the request
    is refused; an unrelated class name cannot be substituted"""
    key = sx.text('key', n, alphabet='BaseSubOthrHld')
    doc = sx.mkdict([(key, {'a': 1})])
    try:
        out = run_soft(lambda: JWRAP._doc_to_object(CTX, Base, doc, JWRAP.validator))
    except Exception as e:
        sx.outside('non-fault exception %s escapes (counted under C10)' % type(e).__name__)
    sx.observe('accepted', out.accepted)
    if not out.accepted:
        return is_client_validation_fault(out.fault)
    want = {'Base': Base, 'Sub': Sub, 'SubSub': SubSub}
    ok = [out.value is None or isinstance(out.value, Base)]
    for name, cls in want.items():
        if len(name) == n:
            ok.append(sx.Implies(sx.eq(key, name), type(out.value) is cls))
    ok.append(sx.Or(*[sx.eq(key, name) for name in want if len(name) == n]))
    return sx.And(*ok)


@harness('C04', params=[(first, n) for first in ('Sub', 'SubSub', 'OtherSub', 'none') for n in (3, 5, 6, 8)],
         label=lambda p: 'first=%s keylen=%d' % p,
         functions=['spyne.protocol.dictdoc.hier.HierDictDocument._doc_to_object'],
         bounds={'history': 'one protocol instance decodes a legitimate document first (wrapper key Sub, SubSub or OtherSub at its '
                            'own position, or nothing), then a document whose wrapper key at a Base position and at an Other '
                            'position is any string of 3..8 letters over the registered names'})
def json_wrapper_key_history(sx, p):
    """what a protocol instance decoded earlier does not widen what it admits later: a wrapper key still selects only the
    declared class or one of its own registered subclasses at each position"""
    first, n = p
    prot = JsonDocument(app=APP, validator='soft', ignore_wrappers=False)     # a fresh instance per path: its own history
    if first in ('Sub', 'SubSub'):
        prot._doc_to_object(CTX, Base, {first: {'a': 1}}, prot.validator)
    elif first == 'OtherSub':
        prot._doc_to_object(CTX, Other, {first: {'z': 'q'}}, prot.validator)
    key = sx.text('key', n, alphabet='BaseSubOthr')
    pos = sx.choose('position', ['Base', 'Other'])
    decl = Base if pos == 'Base' else Other
    try:
        out = run_soft(lambda: prot._doc_to_object(CTX, decl, sx.mkdict([(key, {})]), prot.validator))
    except Exception as e:
        sx.outside('non-fault exception %s escapes (counted under C10)' % type(e).__name__)
    sx.observe('accepted', out.accepted)
    if not out.accepted:
        return is_client_validation_fault(out.fault)
    return out.value is None or isinstance(out.value, decl)


# ---------------------------------------------------------------- binary scalars (YAML !!binary, msgpack bin)
from spyne.protocol.yaml import YamlDocument
from spyne.protocol.msgpack import MessagePackDocument

BPROTS = {'yaml': YamlDocument(app=APP), 'yaml soft': YamlDocument(app=APP, validator='soft'),
          'msgpack': MessagePackDocument(app=APP), 'msgpack soft': MessagePackDocument(app=APP, validator='soft')}
BPOS = {'s': (str,), 'base.u': (str,), 'bases[0].u': (str,), 'n': (int,), 'when': (datetime.date,), 'flag': (bool,)}


@harness('C04', params=[(pr, pos) for pr in sorted(BPROTS) for pos in sorted(BPOS)], label=lambda p: '%s pos=%s' % p,
         functions=['spyne.protocol.dictdoc.hier.HierDictDocument._from_dict_value',
                    'spyne.protocol._inbase.InProtocolBase.unicode_from_bytes',
                    'spyne.protocol._inbase.InProtocolBase.from_bytes'],
         bounds={'document': 'a member, a nested field or a field of an array element carries a native binary scalar (YAML '
                             '!!binary, msgpack bin) of 0..2 symbolic printable ASCII bytes where text, a number, a date or a '
                             'boolean is declared'})
def dictdoc_binary_scalar(sx, p):
    """a binary scalar sent for a member is decoded to the declared native type or refused - user code never sees bytes"""
    pr, pos = p
    prot = BPROTS[pr]
    n = sx.choose('blen', [1, 0, 2])
    v = sx.text('v', n, lo=0x20, hi=0x7e, bytes_=True) if n else b''
    if pos.startswith('base.'):
        doc = {'base': {pos[5:]: v}}
    elif pos.startswith('bases[0].'):
        doc = {'bases': [{pos.split('.')[1]: v}]}
    else:
        doc = {pos: v}
    try:
        out = run_soft(lambda: prot._doc_to_object(CTX, Holder, doc, prot.validator))
    except Exception as e:
        sx.outside('non-fault exception %s escapes (counted under C10)' % type(e).__name__)
    sx.observe('accepted', out.accepted)
    if not out.accepted:
        return is_client_validation_fault(out.fault)
    h = out.value
    if pos.startswith('other.'):
        if not isinstance(h.other, Other):
            return _admissible(h.other, (Other,))
        got = getattr(h.other, pos[6:])
    elif pos.startswith('base.'):
        got = getattr(h.base, pos[5:])
    elif pos.startswith('bases[0].'):
        got = getattr(h.bases[0], pos.split('.')[1])
    else:
        got = getattr(h, pos)
    return _admissible(got, BPOS[pos])


# ---------------------------------------------------------------- SOAP header slots
from harness import C01_xmlwire as _h1

_hh = _h1.soap_headers.harness


@harness('C04', params=_hh.params, label=_hh.label, functions=['spyne.protocol.soap.soap11.Soap11.deserialize'],
         bounds={'headers': 'three declared header classes, each present or absent, in declared or reversed order; leaves symbolic'})
def soap_header_slots(sx, p):
    """each slot of ctx.in_header holds None or an instance of the class declared for that slot, whichever headers
    the request carries"""
    return _h1._soap_headers(sx, p, types_only=True)


# ---------------------------------------------------------------- every native kind in every slot, YAML and MessagePack
# (C04 quantifies over validator soft / lxml; without a validator nothing is checked by design)
KPROTS = {'yaml soft': YamlDocument(app=APP, validator='soft'), 'msgpack soft': MessagePackDocument(app=APP, validator='soft')}


@harness('C04', params=[(pr, slot, kind) for pr in sorted(KPROTS) for slot in ('n', 's', 'flag', 'when', 'base', 'bases', 'other')
                        for kind in KINDS + ['date', 'bytes']],
         label=lambda p: '%s slot=%s kind=%s' % p,
         functions=['spyne.protocol.dictdoc.hier.HierDictDocument._from_dict_value', 'spyne.protocol.msgpack.MessagePackDocument.integer_from_bytes'],
         bounds={'document': 'one member of the object carries a value of each native kind of the format (null, boolean, integer, float, '
                             'text, list, map, date, binary); payloads symbolic where the readers are Python'})
def dictdoc_kinds(sx, p):
    """YAML and MessagePack documents: whatever native kind a member carries, user code receives a value of the declared
    native type (or None) or the request is refused"""
    pr, slot, kind = p
    prot = KPROTS[pr]
    if kind == 'date':
        v = datetime.date(2001, 2, 3)
    elif kind == 'bytes':
        v = sx.choose('vbytes', [b'', b'ab', b'\xff'])
    else:
        v = _value_of_kind(sx, kind, 'v')
    doc = {'n': 1, 's': 'x', slot: v}
    try:
        out = run_soft(lambda: prot._doc_to_object(CTX, Holder, doc, prot.validator))
    except Exception as e:
        sx.outside('non-fault exception %s escapes (counted under C10)' % type(e).__name__)
    sx.observe('accepted', out.accepted)
    if not out.accepted:
        return is_client_validation_fault(out.fault)
    got = getattr(out.value, slot)
    if slot == 'bases' and got is not None:
        return isinstance(got, list) and all(x is None or isinstance(x, Base) for x in got)
    adm = dict(ADMISSIBLE, other=(Other,))
    return _admissible(got, adm[slot])


# ---------------------------------------------------------------- xsi:type on primitive and array elements
from spyne.model.primitive import DateTime, Uuid

class InnerRec(ComplexModel):
    __namespace__ = 'tns'
    v = Integer


class LeafHolder(ComplexModel):
    __namespace__ = 'tns'
    dec = Decimal
    dt = DateTime
    n = Integer
    ints = Array(Integer)
    recs = Array(InnerRec)
    day = Date
    u = Unicode
    uid = Uuid


class _LSvc(Service):
    @rpc(LeafHolder, _returns=Integer)
    def lf(ctx, h):
        return 1


LAPP = Application([_LSvc], 'tns', in_protocol=XmlDocument(validator='soft'), out_protocol=XmlDocument())
LCTX = fake_ctx(LAPP)
LPROTS = {'XmlDocument soft': XmlDocument(app=LAPP, validator='soft'), 'XmlDocument': XmlDocument(app=LAPP),
          'Soap11 lxml': Soap11(app=LAPP, validator='lxml')}
# (xs:integer is derived from xs:decimal, in XML Schema and in spyne's model: an int is a value of a Decimal member)
LEAF_SLOTS = {'dec': ('5', lambda v: isinstance(v, (decimal.Decimal, int)) and not isinstance(v, bool)), 'n': ('5', lambda v: isinstance(v, int) and not isinstance(v, bool)),
              'dt': ('2001-02-03T04:05:06', lambda v: isinstance(v, datetime.datetime)),
              'day': ('2001-02-03', lambda v: isinstance(v, datetime.date) and not isinstance(v, datetime.datetime)),
              # the same members with content that is a literal of a type derived from theirs in spyne's class hierarchy
              # (Date from DateTime, Uuid from Unicode): the retag must not change the native type that arrives
              'dt as date text': ('2001-02-03', lambda v: isinstance(v, datetime.datetime)),
              'u as uuid text': ('12345678-1234-5678-1234-567812345678', lambda v: isinstance(v, str)),
              'ints': (None, lambda v: isinstance(v, list) and all(isinstance(x, int) for x in v)),
              'recs': (None, lambda v: isinstance(v, list) and all(isinstance(x, InnerRec) for x in v))}


def _leaf_type_names():
    out = []
    for key in LAPP.interface.classes:
        if key.startswith('{') and '}' in key:
            ns, name = key[1:].split('}', 1)
            pfx = {'tns': 'tns', XSD_NS: 'xs', 'http://spyne.io/schema': 'sp'}.get(ns)
            if pfx:
                out.append(pfx + ':' + name)
    return sorted(out)


LEAF_TYPE_NAMES = _leaf_type_names()


@harness('C04', params=[(pr, slot) for pr in sorted(LPROTS) for slot in sorted(LEAF_SLOTS)], label=lambda p: '%s slot=%s' % p,
         functions=['spyne.protocol.xml.XmlDocument.from_element'],
         bounds={'xsi:type': 'every type name registered in the interface (xs: builtins and tns: classes, arrays included) on a '
                             'Decimal, Integer, DateTime, Date, Unicode, Array(Integer) or Array(object) member; concrete content conformant to the declared type, or to a type derived from it in the class hierarchy'})
def xsi_type_retag_leaves(sx, p):
    """retagging a primitive or array member with any registered type never delivers a value of another native type (a float
    for a Decimal, a date for a DateTime, objects for integers): it is refused or read as the declared type"""
    pr, slot = p
    prot = LPROTS[pr]
    xt = sx.choose('xsi_type', LEAF_TYPE_NAMES)
    text, admissible = LEAF_SLOTS[slot]
    ns = {'tns': 'tns', None: 'tns', 'xs': XSD_NS, 'sp': 'http://spyne.io/schema'}
    name = slot.split(' ')[0]
    if slot == 'ints':
        kids = [mk_element(sx, '{tns}integer', text='1', nsmap=ns)]
    elif slot == 'recs':
        kids = [mk_element(sx, '{tns}InnerRec', children=[mk_element(sx, '{tns}v', text='1', nsmap=ns)], nsmap=ns)]
    else:
        kids = []
    member = mk_element(sx, '{tns}' + name, text=text, attrib={XSI_TYPE: xt}, children=kids, nsmap=ns)
    try:
        out = run_soft(lambda: prot.from_element(LCTX, LeafHolder, mk_element(sx, '{tns}h', children=[member], nsmap=ns)))
    except Exception as e:
        sx.outside('non-fault exception %s escapes (counted under C10)' % type(e).__name__)
    sx.observe('accepted', out.accepted)
    if not out.accepted:
        return is_client_validation_fault(out.fault)
    got = getattr(out.value, name)
    sx.observe('delivered', type(got).__name__)
    return got is None or admissible(got)


# ---------------------------------------------------------------- bare body style: the message itself is the primitive
class _BareSvc(Service):
    @rpc(Unicode, _returns=Unicode, _body_style='bare')
    def say(ctx, s):
        return s

    @rpc(Integer, _returns=Integer, _body_style='bare')
    def count(ctx, n):
        return n

    @rpc(Boolean, _returns=Boolean, _body_style='bare')
    def flag(ctx, b):
        return b


_BARE_APPS = {}
_BARE_ADM = {'say': (str,), 'count': (int,), 'flag': (bool,)}


def _bare_app(pname):
    if pname not in _BARE_APPS:
        from spyne.server import ServerBase
        P = {'json': JsonDocument, 'yaml': YamlDocument, 'msgpack': MessagePackDocument}[pname]
        app = Application([_BareSvc], 'tns', in_protocol=P(validator='soft'), out_protocol=P())
        _BARE_APPS[pname] = (app, ServerBase(app))
    return _BARE_APPS[pname]


@harness('C04', params=[(pn, m, kind) for pn in ('json', 'yaml', 'msgpack') for m in sorted(_BARE_ADM) for kind in KINDS],
         label=lambda p: '%s method=%s kind=%s' % p,
         functions=['spyne.protocol.dictdoc.hier.HierDictDocument.deserialize', 'spyne.protocol.dictdoc.hier.HierDictDocument._from_dict_value'],
         bounds={'document': '{method: value} for a bare-style method declared with Unicode, Integer or Boolean; the value of each kind '
                             '(null, boolean, integer, float, text, list, map; payload symbolic); soft validation'})
def bare_primitive_kinds(sx, p):
    """bare body style: the value under the method key goes through the same checks as a member - user code receives the
    declared native type (or None) or the request is refused"""
    from spyne.context import MethodContext
    pname, meth, kind = p
    app, server = _bare_app(pname)
    prot = app.in_protocol
    v = _value_of_kind(sx, kind, 'v')

    def run():
        ctx = MethodContext(server, MethodContext.SERVER)
        ctx.in_document = {meth: v}
        prot.decompose_incoming_envelope(ctx, prot.REQUEST)
        ctx, = prot.generate_method_contexts(ctx)
        prot.deserialize(ctx, prot.REQUEST)
        return ctx.in_object
    try:
        out = run_soft(run)
    except Exception as e:
        sx.outside('non-fault exception %s escapes (counted under C10)' % type(e).__name__)
    sx.observe('accepted', out.accepted)
    if not out.accepted:
        return is_client_validation_fault(out.fault)
    return _admissible(out.value, _BARE_ADM[meth])

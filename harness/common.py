"""Shared harness helpers: element stubs, soft-validation runner, reference literal readers."""
from spyne.model.fault import Fault
from spyne.context import FakeContext

XSI_NS = 'http://www.w3.org/2001/XMLSchema-instance'
XSD_NS = 'http://www.w3.org/2001/XMLSchema'


class StubElement(object):
    """pure-python stand-in for the subset of the lxml element API that spyne's XML
    deserialiser uses (tag, text, attrib, get, nsmap, iteration, getchildren)"""

    def __init__(self, tag, text=None, attrib=None, children=(), nsmap=None):
        self.tag = tag
        self.text = text
        self.attrib = dict(attrib or {})
        self.ch = list(children)
        self.nsmap = dict(nsmap or {})
        self.tail = None

    def get(self, k, d=None):
        return self.attrib.get(k, d)

    def __iter__(self):
        return iter(self.ch)

    def __len__(self):
        return len(self.ch)

    def getchildren(self):
        return list(self.ch)

    def find(self, path):
        for c in self.ch:
            if c.tag == path:
                return c
        return None


def mk_element(sx, tag, text=None, attrib=None, children=(), nsmap=None):
    """symbolic mode: StubElement (texts/attribute values may be proxies);
    concrete mode: a real lxml element, so the native replay exercises real lxml objects"""
    if sx.symbolic:
        return StubElement(tag, text, attrib, children, nsmap)
    from lxml import etree
    ns = dict(nsmap or {})
    el = etree.Element(tag, nsmap=ns or None)
    if text is not None:
        el.text = text
    for k, v in (attrib or {}).items():
        el.set(k, v)
    for c in children:
        el.append(c)
    return el


class Outcome(object):
    __slots__ = ('accepted', 'value', 'fault')

    def __init__(self, accepted, value=None, fault=None):
        self.accepted, self.value, self.fault = accepted, value, fault


def run_soft(fn):
    """accepted value, or the Fault that rejected it; any other exception escapes (and is
    reported by the runner as a violation of 'a rejected value raises a client fault')"""
    try:
        return Outcome(True, fn())
    except Fault as e:
        return Outcome(False, None, e)


def is_client_validation_fault(f):
    code = getattr(f, 'faultcode', None)
    return isinstance(code, str) and (code == 'Client.ValidationError' or
                                      code.startswith('Client.ValidationError.') or code == 'Client'
                                      or code.startswith('Client.'))


def int_literal(sx, text):
    """reference reader of the xs:integer lexical space: (is_literal, value)"""
    if not sx.symbolic or isinstance(text, str):
        import re
        if re.fullmatch(r'[+-]?[0-9]+', text) is None:
            return False, 0
        return True, int(text)
    import z3
    from symx.core import SBool, SInt
    from symx.strs import re_member, digits_val, _cz
    valid = re_member(r'[+-]?[0-9]+', text)
    if valid is False or not text.c:
        return False, 0
    c0 = _cz(text.c[0])
    signed = z3.Or(c0 == 43, c0 == 45)
    body_all = digits_val(text.c)
    body_rest = digits_val(text.c[1:])
    val = z3.If(signed, z3.If(c0 == 45, -body_rest, body_rest), body_all)
    return (valid if isinstance(valid, bool) else SBool(valid)), SInt(z3.simplify(val))


def fake_ctx(app):
    return FakeContext(app=app)

"""C10 — malformed leaf texts and wrong value kinds end in a client fault, never in an escaping
exception (the layer spyne owns after the byte-level parser)."""
from symx.api import harness
from harness.common import mk_element, fake_ctx

from spyne import Application, Service, rpc, ComplexModel
from spyne.model.primitive import (Integer, Integer32, UnsignedInteger8, Decimal, Double, Boolean, Unicode,
                                   Date, DateTime, Time, Duration, Uuid)
from spyne.model.complex import Array
from spyne.model.binary import ByteArray
from spyne.model.enum import Enum
from spyne.model.fault import Fault
from spyne.protocol.xml import XmlDocument
from spyne.protocol.json import JsonDocument
from spyne.protocol.http import HttpRpc


class Inner(ComplexModel):
    __namespace__ = 'tns'
    v = Integer


Color = Enum('red', 'green', type_name='Color')


class Holder(ComplexModel):
    __namespace__ = 'tns'
    n = Integer
    blob = ByteArray
    hexblob = ByteArray(encoding='hex')
    color = Color
    many = Integer(max_occurs='unbounded')
    uid = Uuid
    d = Decimal
    s = Unicode
    flag = Boolean
    when = Date
    at = DateTime
    t = Time
    dur = Duration
    dbl = Double
    inner = Inner
    arr = Array(Integer)
    objs = Array(Inner)


class _Svc(Service):
    @rpc(Holder, _returns=Integer)
    def f(ctx, h):
        return 1


APP = Application([_Svc], 'tns', in_protocol=XmlDocument(validator='soft'), out_protocol=XmlDocument())
CTX = fake_ctx(APP)
XML = XmlDocument(app=APP, validator='soft')
XML_NOVAL = XmlDocument(app=APP)
JSON = JsonDocument(app=APP, validator='soft')
JSON_NOVAL = JsonDocument(app=APP)
HTTP = HttpRpc(app=APP, validator='soft')

FREE = {  # free-form text: (type, alphabet, lengths)
    'Integer': (Integer, '0123456789+-. ex_', (0, 1, 2, 3, 5)),
    'Integer32': (Integer32, '0123456789+-. ex_', (0, 1, 2, 3)),
    'Integer32/long': (Integer32, '0123456789+-x', (10, 11, 12)),
    'UnsignedInteger8': (UnsignedInteger8, '0123456789+-x', (0, 1, 3, 4, 5)),
    'Decimal': (Decimal, '0123456789+-.eExN', (0, 1, 2, 3, 4)),
    'Double': (Double, '0123456789.x', (0, 1, 2, 3)),
    'Boolean': (Boolean, 'truefalsTRUE01x ', (0, 1, 4, 5)),
    'Unicode': (Unicode, 'ab<&é ', (0, 1, 3)),
    'Duration': (Duration, '-PT0123456789.DHMSYx', (0, 1, 2, 3, 4, 5)),
    'ByteArray': (ByteArray, 'Aa0+/=_- ', (0, 1, 2, 3, 4, 5)),
    'ByteArray(hex)': (ByteArray(encoding='hex'), '0aFg ', (0, 1, 2, 3, 4)),
    'Enum': (Color, 'redgn', (0, 1, 3, 5)),
}
SHAPED = {  # (type, template): 'd' = any digit, other characters literal or from a small set
    'Date': (Date, ['dddd-dd-dd', 'dddd-dd-ddZ', 'dddd-dd-dd+dd:dd', 'dddd-d-dd', 'dddd/dd/dd']),
    'DateTime': (DateTime, ['dddd-dd-ddTdd:dd:dd', 'dddd-dd-ddTdd:dd:ddZ', 'dddd-dd-ddTdd:dd:dd.ddd',
                            'dddd-dd-ddTdd:dd:dd+dd:dd', 'dddd-dd-ddTdd:dd:dd-dd:dd', 'dddd-dd-dd dd:dd:dd',
                            'dddd-dd-ddTdd:dd']),
    'Time': (Time, ['dd:dd:dd', 'dd:dd:dd.dddddd', 'dd:dd:dd.ddddddd', 'dd:dd']),
    'Duration': (Duration, ['PdDTdHdMd.dS', 'PTd.ddddddddS', '-PdYdMdD', 'PTdxdS', 'P', 'PdddddddddddD', 'PddddddddddY', '-PdddddddddDTddHddMddS',
                            'PTddddddddddddH']),
}


def _shaped_text(sx, tmpl):
    out = ''
    i = 0
    run = 0
    for ch in tmpl + '\0':
        if ch == 'd':
            run += 1
            continue
        if run:
            out = out + sx.digits('g%d' % i, run)
            i += 1
            run = 0
        if ch != '\0':
            out = out + ch
    return out


def _call(family, T, text, sx):
    if family == 'xml':
        return XML.from_element(CTX, T, mk_element(sx, '{tns}v', text=text))
    if family == 'xml-novalidate':
        return XML_NOVAL.from_element(CTX, T, mk_element(sx, '{tns}v', text=text))
    if family == 'json':
        return JSON._from_dict_value(CTX, 'k', T, text, JSON.validator)
    if family == 'json-novalidate':
        return JSON_NOVAL._from_dict_value(CTX, 'k', T, text, JSON_NOVAL.validator)
    if family == 'http':
        class _M(object):
            type = T
        return HTTP._to_native_values(Holder, _M, 'k', 'k', [text], None, HTTP.validator)
    raise ValueError(family)


def _client_fault(e):
    code = getattr(e, 'faultcode', '')
    return isinstance(code, str) and (code == 'Client' or code.startswith('Client.'))


FAMILIES = ['xml', 'xml-novalidate', 'json', 'json-novalidate', 'http']
LEAF_FUNCS = ['spyne.protocol._inbase.InProtocolBase.from_unicode', 'spyne.protocol.xml.XmlDocument.from_element',
              'spyne.protocol.dictdoc.hier.HierDictDocument._from_dict_value',
              'spyne.protocol.dictdoc.simple.SimpleDictDocument._to_native_values']


@harness('C10', params=[(n, fam) for n in sorted(FREE) for fam in FAMILIES], label=lambda p: '%s %s' % p,
         functions=LEAF_FUNCS,
         bounds={'text': 'every string of the listed lengths (<= 5, plus the length-guard boundary) over a per-type '
                         'adversarial alphabet (digits, sign, dot, exponent, space, underscore, letters, non-ASCII)'})
def leaf_free_text(sx, p):
    """any leaf text is either parsed or refused with a Client fault; nothing else escapes"""
    name, fam = p
    T, alphabet, lens = FREE[name]
    if sx.tier == 'thorough' and max(lens) <= 5:
        lens = tuple(sorted(set(lens) | {4, 5, 6}))
    L = sx.choose('len', list(lens))
    text = sx.text('t', L, alphabet=alphabet) if L else ''
    if L == 0 and fam.startswith('xml'):
        text = None
    try:
        _call(fam, T, text, sx)
    except Fault as e:
        return _client_fault(e)
    return True


@harness('C10', params=[(n, i, fam) for n in sorted(SHAPED) for i in range(len(SHAPED[n][1])) for fam in ('xml', 'json')],
         label=lambda p: '%s %s %s' % (p[0], SHAPED[p[0]][1][p[1]], p[2]), functions=LEAF_FUNCS,
         bounds={'text': 'date/time/duration shapes with every digit symbolic (so month 13, day 32, hour 24, '
                         'second 60, offset 99:99 are inside the bound)'})
def leaf_shaped_text(sx, p):
    name, i, fam = p
    T, tmpls = SHAPED[name]
    text = _shaped_text(sx, tmpls[i])
    try:
        _call(fam, T, text, sx)
    except Fault as e:
        return _client_fault(e)
    return True


SLOTS = ['n', 'd', 's', 'flag', 'when', 'at', 't', 'dur', 'dbl', 'inner', 'arr', 'objs', 'blob', 'color', 'many', 'uid']
KINDS = ['none', 'bool', 'int', 'float', 'str', 'list', 'dict']


CONCRETE_KINDS = {'bool': [True, False], 'int': [0, -3, 300], 'str': ['', 'a1', '12345678-1234-5678-1234-567812345678', 'zz'],
                  'list': [[], [5]], 'dict': [{}, {'v': 5}], 'bytes': [b'', b'ab', b'\xff\xfe']}


def _kind_value(sx, kind, concrete=False):
    if concrete and kind in CONCRETE_KINDS:
        # (slots whose reader is a C function - uuid.UUID - get concrete representatives instead of solver variables)
        return sx.choose('v' + kind, CONCRETE_KINDS[kind])
    if kind == 'none':
        return None
    if kind == 'bool':
        return sx.bool('vb')
    if kind == 'int':
        return sx.int('vi', -3, 300)
    if kind == 'float':
        return sx.choose('vf', [1.5, 2.0, float('nan'), float('inf'), float('-inf'), 1e300, -1e300])
    if kind == 'str':
        n = sx.choose('slen', [0, 2])
        return sx.text('vs', n, alphabet='a1-') if n else ''
    if kind == 'list':
        return [sx.int('li', 0, 9)] if sx.choose('ln', [0, 1]) else []
    return {'v': sx.int('dv', 0, 9)} if sx.choose('dn', [0, 1]) else {}


@harness('C10', params=[(s, k) for s in SLOTS for k in KINDS], label=lambda p: 'slot=%s kind=%s' % p,
         functions=['spyne.protocol.dictdoc.hier.HierDictDocument._doc_to_object',
                    'spyne.protocol.dictdoc.hier.HierDictDocument._from_dict_value'],
         bounds={'document': 'one member of a 16-member object (numbers, text, dates, binary, enumeration, uuid, nested object, arrays, repeated member) carries a value of each JSON kind, floats including NaN / infinity / 1e300'})
def json_wrong_kinds(sx, p):
    """a member carrying the wrong JSON kind is refused with a Client fault (or coerced), never a crash"""
    slot, kind = p
    doc = {'n': 1, slot: _kind_value(sx, kind, concrete=(slot == 'uid'))}
    try:
        JSON._doc_to_object(CTX, Holder, doc, JSON.validator)
    except Fault as e:
        return _client_fault(e)
    return True


import datetime as _dtm
from spyne.protocol.yaml import YamlDocument
from spyne.protocol.msgpack import MessagePackDocument

DPROTS = {'json none': JSON_NOVAL, 'yaml soft': YamlDocument(app=APP, validator='soft'), 'yaml none': YamlDocument(app=APP),
          'msgpack soft': MessagePackDocument(app=APP, validator='soft'), 'msgpack none': MessagePackDocument(app=APP)}
NATIVE_KINDS = KINDS + ['date', 'datetime', 'time', 'bytes']


def _native_kind_value(sx, kind, concrete=False):
    """the scalar kinds YAML (timestamps, !!binary) and MessagePack (bin) add to the JSON ones"""
    if kind == 'date':
        return _dtm.date(2001, 2, 3)
    if kind == 'datetime':
        return sx.choose('vdt', [_dtm.datetime(2001, 2, 3, 4, 5, 6), _dtm.datetime(2001, 2, 3, 4, 5, 6, tzinfo=_dtm.timezone.utc)])
    if kind == 'time':
        return 45296            # YAML reads 12:34:56 as the sexagesimal integer 45296
    if kind == 'bytes':
        if concrete:
            return sx.choose('vbytes_c', CONCRETE_KINDS['bytes'])
        n = sx.choose('blen', [0, 2, -1])
        if n == -1:
            return b'\xff\xfe'                 # not UTF-8
        return sx.text('vbytes', n, lo=0x20, hi=0x7e, bytes_=True) if n else b''
    return _kind_value(sx, kind, concrete)


@harness('C10', params=[(pr, s, k) for pr in sorted(DPROTS) for s in SLOTS for k in NATIVE_KINDS], label=lambda p: '%s slot=%s kind=%s' % p,
         functions=['spyne.protocol.dictdoc.hier.HierDictDocument._doc_to_object',
                    'spyne.protocol.dictdoc.hier.HierDictDocument._from_dict_value'],
         bounds={'document': 'as json_wrong_kinds, for JsonDocument without validator and for YamlDocument / MessagePackDocument with and '
                             'without soft validation, plus the native kinds those formats add: dates, date-times, sexagesimal '
                             'integers, binary scalars (0 or 2 symbolic bytes)'})
def dictdoc_wrong_kinds(sx, p):
    """whatever native kind a YAML or MessagePack (or unvalidated JSON) document puts into a member, the request is decoded
    or refused with a Client fault"""
    pr, slot, kind = p
    prot = DPROTS[pr]
    doc = {'n': 1, slot: _native_kind_value(sx, kind, concrete=(slot == 'uid'))}
    try:
        prot._doc_to_object(CTX, Holder, doc, prot.validator)
    except Fault as e:
        return _client_fault(e)
    return True


@harness('C10', params=['scalar', 'list', 'str', 'none', 'extra', 'nested-scalar'],
         functions=['spyne.protocol.dictdoc.hier.HierDictDocument._doc_to_object'],
         bounds={'document': 'top-level document replaced by a scalar / list / string / null, unknown members, '
                             'nested object replaced by a scalar'})
def json_wrong_nesting(sx, shape):
    v = sx.int('v', 0, 9)
    doc = {'scalar': v, 'list': [v, v], 'str': 'ab', 'none': None, 'extra': {'n': v, 'zzz': {'q': [v]}},
           'nested-scalar': {'inner': {'v': {'deep': v}}, 'objs': [v]}}[shape]
    try:
        JSON._doc_to_object(CTX, Holder, doc, JSON.validator)
    except Fault as e:
        return _client_fault(e)
    return True


from harness.common import XSI_NS, XSD_NS
NSMAP = {'tns': 'tns', None: 'tns', 'xs': XSD_NS}


@harness('C10', params=[(v, n) for v in ('xml', 'xml-novalidate') for n in (1, 2, 3, 5, 6)], label=lambda p: '%s len=%d' % p,
         functions=['spyne.protocol.xml.XmlDocument.from_element'],
         bounds={'xsi:type': 'every string of 1..6 characters over the alphabet t n s x : I g e r (so zero, one and '
                             'several colons, known and unknown prefixes and names)'})
def xsi_type_text(sx, p):
    """any xsi:type attribute text is resolved or refused with a Client fault"""
    fam, n = p
    prot = XML if fam == 'xml' else XML_NOVAL
    xt = sx.text('xt', n, alphabet='tnsx:Iger')
    el = mk_element(sx, '{tns}n', text='5', attrib={'{%s}type' % XSI_NS: xt}, nsmap=NSMAP)
    try:
        prot.from_element(CTX, Integer, el)
    except Fault as e:
        return _client_fault(e)
    return True


# ---------------------------------------------------------------- HttpRpc: hostile array indexes in flattened keys
HTTPS = {'soft': HTTP, 'none': HttpRpc(app=APP), 'strict': HttpRpc(app=APP, strict_arrays=True),
         'strict+soft': HttpRpc(app=APP, strict_arrays=True, validator='soft')}


@harness('C10', params=[(c, n) for c in sorted(HTTPS) for n in (1, 2)], label=lambda p: '%s keys=%d' % p,
         functions=['spyne.protocol.dictdoc.simple.SimpleDictDocument.simple_dict_to_object',
                    'spyne.protocol.dictdoc.simple._s2cmi'],
         bounds={'keys': 'one or two keys objs[<i>].v / arr[<i>] whose bracket content is any string of 1..2 characters over '
                         '0-9 and x (so: gaps, leading keys deleted, non-numeric indexes), digit values; strict_arrays on/off, '
                         'validator soft/None'})
def http_hostile_indexes(sx, p):
    """whatever array indexes the flattened keys carry, the request is decoded or refused with a Client fault"""
    cfg, n = p
    prot = HTTPS[cfg]
    pairs = []
    for j in range(n):
        L = sx.choose('ilen%d' % j, [1, 2])
        idx = sx.text('i%d' % j, L, alphabet='0123456789x')
        which = sx.choose('member%d' % j, ['objs', 'arr'])
        key = ('objs[' + idx + '].v') if which == 'objs' else ('arr[' + idx + ']')
        pairs.append((key, [sx.digits('v%d' % j, 1)]))
    if n == 2:
        sx.assume(sx.Not(sx.eq(pairs[0][0], pairs[1][0])))
    try:
        prot.simple_dict_to_object(CTX, sx.mkdict(pairs), Holder, prot.validator)
    except Fault as e:
        return _client_fault(e)
    return True

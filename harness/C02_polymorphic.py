"""C02 — the polymorphic setting of the dict-document protocols (same harness body as C16.dictdoc_polymorphic)."""
from symx.api import harness
from harness import C16_polymorphism as h16

_h = h16.dictdoc_polymorphic.harness
dictdoc_polymorphic = harness('C02', name='dictdoc_polymorphic', params=_h.params, label=_h.label,
                              functions=_h.functions, bounds=_h.bounds)(_h.fn)

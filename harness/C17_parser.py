"""C17 — XML input is parsed with safe defaults (option flow only: what libxml2 does with the options
is C code and outside reach; decided here is that the options reach the parser, per request, unchanged,
and that the constructor defaults are the safe set)."""
import inspect
from symx.api import harness

import spyne.protocol.xml as xml_mod
import spyne.protocol.soap.soap11 as soap11_mod
from spyne.protocol.xml import XmlDocument
from spyne.protocol.soap import Soap11, Soap12
from spyne.context import FakeContext
from spyne.model.fault import Fault

SAFE = dict(resolve_entities=False, load_dtd=False, no_network=True, huge_tree=False, dtd_validation=False,
            attribute_defaults=False)
OPTS = ['attribute_defaults', 'dtd_validation', 'load_dtd', 'no_network', 'ns_clean', 'recover', 'remove_blank_text',
        'remove_pis', 'strip_cdata', 'resolve_entities', 'huge_tree', 'compact']


class Recorder(object):
    def __init__(self):
        self.parsers = []
        self.parsed = []
        self.fail_next = False      # lxml refuses unicode input that carries an encoding declaration

    def XMLParser(self, **kw):
        p = ('parser', len(self.parsers))
        self.parsers.append(kw)
        return p

    # etree facade
    def fromstring(self, string, parser=None):
        self.parsed.append((string, parser))
        return ('doc', len(self.parsed))

    def XMLID(self, string, parser=None):
        self.parsed.append((string, parser))
        if self.fail_next and not isinstance(string, bytes) and not getattr(string, 'is_bytes', False):
            self.fail_next = False
            raise ValueError('Unicode strings with encoding declaration are not supported.')
        return ('doc', len(self.parsed)), {}

    XMLSyntaxError = xml_mod.etree.XMLSyntaxError


class patched(object):
    """the lxml entry points of the two modules replaced by a recording stub (environment model)"""
    def __init__(self, rec):
        self.rec = rec

    def __enter__(self):
        self.saved = (xml_mod.XMLParser, xml_mod.etree, soap11_mod.XMLParser, soap11_mod.etree)
        xml_mod.XMLParser = self.rec.XMLParser
        xml_mod.etree = self.rec
        soap11_mod.XMLParser = self.rec.XMLParser
        soap11_mod.etree = self.rec

    def __exit__(self, *a):
        xml_mod.XMLParser, xml_mod.etree, soap11_mod.XMLParser, soap11_mod.etree = self.saved


PROTS = {'XmlDocument': XmlDocument, 'Soap11': Soap11, 'Soap12': Soap12}


@harness('C17', params=sorted(PROTS), functions=['spyne.protocol.xml.XmlDocument.__init__',
                                                 'spyne.protocol.xml.XmlDocument.create_in_document',
                                                 'spyne.protocol.soap.soap11.Soap11.create_in_document',
                                                 'spyne.protocol.soap.soap11._parse_xml_string'],
         bounds={'options': 'all twelve boolean parser options symbolic at once', 'request': 'two requests of 0..3 symbolic bytes'})
def parser_options_flow(sx, pname):
    """every request is parsed by a parser constructed for that request with exactly the constructor's option
    values (no cross-wiring between options)"""
    opts = dict((k, sx.bool(k)) for k in OPTS)
    prot = PROTS[pname](**opts)
    rec = Recorder()
    n = sx.choose('len', [0, 1, 3])
    body = sx.text('body', n, lo=0, hi=255, bytes_=True) if n else b''
    with patched(rec):
        for i in range(2):
            ctx = FakeContext(in_string=[body, b'<a/>'])
            try:
                prot.create_in_document(ctx)
            except Fault:
                return False
    ok = [len(rec.parsers) == 2, len(rec.parsed) == 2]
    if len(rec.parsers) != 2 or len(rec.parsed) != 2:
        return False
    for i in range(2):
        kw = rec.parsers[i]
        for k in OPTS:
            ok.append(k in kw and sx.eq(kw.get(k), opts[k]))
        ok.append(kw.get('remove_comments') is True)
        ok.append(rec.parsed[i][1] == ('parser', i))          # the parser built for this very request
        ok.append(sx.eq(rec.parsed[i][0], body + b'<a/>'))
    return sx.And(*ok)


@harness('C17', params=sorted(PROTS), functions=['spyne.protocol.xml.XmlDocument.__init__'],
         bounds={'defaults': 'read from the live constructor signature and from a default-constructed instance'})
def safe_defaults(sx, pname):
    """with default settings the parser options are the safe set"""
    P = PROTS[pname]
    sig = inspect.signature(XmlDocument.__init__)      # Soap11/Soap12 pass their arguments through
    ok = []
    for k, v in SAFE.items():
        ok.append(k in sig.parameters and sig.parameters[k].default is v)
    prot = P()
    rec = Recorder()
    with patched(rec):
        prot.create_in_document(FakeContext(in_string=[b'<a/>']))
    if len(rec.parsers) != 1:
        return False
    for k, v in SAFE.items():
        ok.append(rec.parsers[0].get(k) is v)
    if not sx.symbolic:
        # on the real library: an external entity is neither resolved nor expanded with the defaults
        import tempfile, os
        fd, path = tempfile.mkstemp()
        os.write(fd, b'CANARY-4711')
        os.close(fd)
        try:
            doc = ('<?xml version="1.0"?><!DOCTYPE d [<!ENTITY e SYSTEM "file://%s">]><d xmlns="tns">&e;</d>' % path).encode()
            if pname != 'XmlDocument':
                env = 'http://schemas.xmlsoap.org/soap/envelope/' if pname == 'Soap11' else 'http://www.w3.org/2003/05/soap-envelope'
                doc = doc.replace(b'<d xmlns="tns">&e;</d>', ('<s:Envelope xmlns:s="%s"><s:Body><d xmlns="tns">&e;</d></s:Body></s:Envelope>' % env).encode())
            ctx = FakeContext(in_string=[doc])
            try:
                P().create_in_document(ctx)
                from lxml import etree
                root = ctx.in_document[0] if isinstance(ctx.in_document, tuple) else ctx.in_document
                ok.append(b'CANARY-4711' not in etree.tostring(root))
                ok.append('CANARY-4711' not in ''.join(root.itertext()))
            except Fault as e:
                ok.append(e.faultcode.startswith('Client'))
        finally:
            os.unlink(path)
    return sx.And(*ok)


@harness('C17', params=sorted(PROTS), functions=['spyne.protocol.xml.XmlDocument.__init__',
                                                 'spyne.protocol.xml.XmlDocument.create_in_document',
                                                 'spyne.protocol.soap.soap11._parse_xml_string'],
         bounds={'options': 'two protocol instances constructed one after the other, each with twelve independent '
                            'symbolic options; requests with and without a declared charset, including the path on '
                            'which lxml refuses the decoded text and the bytes are parsed again'})
def parser_options_isolated(sx, pname):
    """the options of one protocol instance are not affected by constructing another one, and every parse
    attempt of a request - including the retry after lxml refused decoded text - uses the hardened parser"""
    P = PROTS[pname]
    o1 = dict((k, sx.bool('a_' + k)) for k in OPTS)
    o2 = dict((k, sx.bool('b_' + k)) for k in OPTS)
    p1 = P(**o1)
    p2 = P(**o2)
    rec = Recorder()
    charset = sx.choose('charset', [None, 'utf-8'])
    refuse = sx.choose('lxml_refuses_text', [False, True]) if (charset and pname != 'XmlDocument') else False
    ok = []
    with patched(rec):
        for prot, opts in ((p1, o1), (p2, o2), (p1, o1)):
            n0, m0 = len(rec.parsers), len(rec.parsed)
            rec.fail_next = refuse
            try:
                prot.create_in_document(FakeContext(in_string=[b'<a/>']), charset)
            except Fault:
                return False
            if len(rec.parsers) != n0 + 1:
                return False
            kw = rec.parsers[n0]
            for k in OPTS:
                ok.append(sx.eq(kw.get(k), opts[k]))
            attempts = rec.parsed[m0:]
            ok.append(len(attempts) == (2 if refuse else 1))
            for string, parser in attempts:
                ok.append(parser == ('parser', n0))         # never the library's default parser
    return sx.And(*ok)


# ---------------------------------------------------------------- concrete canaries on the real library
from spyne import Application, Service, rpc, ComplexModel
from spyne.model.primitive import Unicode, Integer
from spyne.model.complex import XmlAttribute
from spyne.server import ServerBase
from spyne.context import MethodContext

SEEN = {}


class Tagged(ComplexModel):
    __namespace__ = 'tns'
    label = XmlAttribute(Unicode)
    body = Unicode


class CanarySvc(Service):
    @rpc(Unicode, Tagged, _returns=Unicode)
    def echo(ctx, s, t):
        SEEN['args'] = (s, None if t is None else (t.label, t.body))
        return s


CAPPS = {}
ATTACKS = ['internal entity in text', 'internal entity in mixed text', 'entity chain in text', 'internal entity in attribute',
           'external entity in text', 'external DTD subset entity in attribute', 'external DTD subset attribute default', 'parameter entity',
           'nesting bomb', 'entity expansion bomb in text', 'entity expansion bomb in attribute']


@harness('C17', params=[(p, a) for p in sorted(PROTS) for a in ATTACKS], label=lambda p: '%s %s' % p,
         functions=['spyne.protocol.xml.XmlDocument.create_in_document', 'spyne.protocol.xml.XmlDocument.unicode_from_element',
                    'spyne.protocol.xml.XmlDocument.complex_from_element', 'spyne.protocol.soap.soap11._parse_xml_string'],
         bounds={'attacks': 'eleven concrete attack documents (entities: internal, chained, external, external DTD, attribute defaults of an external DTD, parameter; nesting and expansion bombs) x validator None / soft / lxml x transport charset given or not x encoding declaration present or not, per protocol through the real parser and deserialiser with default '
                            'settings (concrete canaries; what libxml2 does is not modelled)'})
def entity_canaries(sx, p):
    """with default settings the replacement text of an entity - internal, chained, external, from an external DTD
    subset - never reaches user code or the response"""
    pname, attack = p
    if not sx.symbolic or True:
        import tempfile, os
        # the validator is part of the deployment: a schema-validating protocol builds its parser from the same options
        validator = sx.choose('validator', [None, 'soft', 'lxml'])
        if (pname, validator) not in CAPPS:
            P = PROTS[pname]
            app = Application([CanarySvc], 'tns', in_protocol=P(validator=validator), out_protocol=P())
            CAPPS[pname, validator] = (app, ServerBase(app))
        app, server = CAPPS[pname, validator]
        fd, path = tempfile.mkstemp(suffix='.txt')
        os.write(fd, b'FILE-CANARY-0815')
        os.close(fd)
        fd2, dtd = tempfile.mkstemp(suffix='.dtd')
        os.write(fd2, b'<!ENTITY fromdtd "DTD-CANARY-0815"><!ATTLIST t label CDATA "DTD-CANARY-0815">')
        os.close(fd2)
        try:
            s_el, t_el = '<s>plain</s>', '<t label="l"><body>b</body></t>'
            if attack == 'internal entity in text':
                doctype, s_el = '<!DOCTYPE echo [<!ENTITY x "INT-CANARY-0815">]>', '<s>&x;</s>'
            elif attack == 'internal entity in mixed text':
                doctype, s_el = '<!DOCTYPE echo [<!ENTITY x "INT-CANARY-0815">]>', '<s>pre&x;post</s>'
            elif attack == 'entity chain in text':
                doctype = '<!DOCTYPE echo [<!ENTITY a "INT-CANARY-0815"><!ENTITY b "&a;&a;"><!ENTITY c "&b;&b;">]>'
                s_el = '<s>x&c;y</s>'
            elif attack == 'internal entity in attribute':
                doctype, t_el = '<!DOCTYPE echo [<!ENTITY x "INT-CANARY-0815">]>', '<t label="v&x;"><body>b</body></t>'
            elif attack == 'external entity in text':
                doctype, s_el = '<!DOCTYPE echo [<!ENTITY x SYSTEM "file://%s">]>' % path, '<s>a&x;b</s>'
            elif attack == 'external DTD subset entity in attribute':
                doctype, t_el = '<!DOCTYPE echo SYSTEM "file://%s">' % dtd, '<t label="v&fromdtd;"><body>b</body></t>'
            elif attack == 'external DTD subset attribute default':
                doctype, t_el = '<!DOCTYPE echo SYSTEM "file://%s">' % dtd, '<t><body>b</body></t>'
            elif attack == 'parameter entity':
                doctype = '<!DOCTYPE echo [<!ENTITY %% p SYSTEM "file://%s"> %%p;]>' % dtd
                s_el = '<s>a&fromdtd;b</s>'
            elif attack == 'nesting bomb':
                doctype, s_el = '', '<s>' + '<n>' * 3000 + '</n>' * 3000 + '</s>'
            else:
                doctype = '<!DOCTYPE echo [<!ENTITY a0 "INT-CANARY-0815">' + ''.join(
                    '<!ENTITY a%d "%s">' % (i, ('&a%d;' % (i - 1)) * 10) for i in range(1, 10)) + ']>'
                if attack.endswith('text'):
                    s_el = '<s>&a9;</s>'
                else:
                    t_el = '<t label="&a9;"><body>b</body></t>'
            inner = '<echo xmlns="tns">%s%s</echo>' % (s_el, t_el)
            if pname != 'XmlDocument':
                env = 'http://schemas.xmlsoap.org/soap/envelope/' if pname == 'Soap11' else 'http://www.w3.org/2003/05/soap-envelope'
                doctype = doctype.replace('DOCTYPE echo', 'DOCTYPE Envelope')
                inner = '<s:Envelope xmlns:s="%s"><s:Body>%s</s:Body></s:Envelope>' % (env, inner)
            # the transport may announce a charset and the document may declare its encoding: both parse paths
            charset = sx.choose('transport_charset', [None, 'utf-8'])
            decl = sx.choose('encoding_declaration', ['', ' encoding="UTF-8"'])
            body = ('<?xml version="1.0"%s?>' % decl + doctype + inner).encode()
            # ... and the document itself need not be UTF-8: a legal UTF-16 or ISO-8859-1 spelling of the same attack
            doc_enc = sx.choose('document_encoding', ['utf-8', 'utf-16', 'iso-8859-1']) if (charset is None and not decl) else 'utf-8'
            if doc_enc != 'utf-8':
                text = ('<?xml version="1.0" encoding="%s"?>' % doc_enc.upper() + doctype + inner).replace('plain', u'pl\xe9in')
                body = text.encode(doc_enc)
            SEEN.clear()
            ctx = MethodContext(server, MethodContext.SERVER)
            ctx.in_string = [body]
            ctx, = server.generate_contexts(ctx, charset)
            if ctx.in_error is None:
                server.get_in_object(ctx)
            if ctx.in_error is None:
                server.get_out_object(ctx)
            else:
                ctx.out_error = ctx.in_error
            server.get_out_string(ctx)
            out = b''.join(ctx.out_string)
            seen = repr(SEEN.get('args'))
            leaks = [c for c in ('INT-CANARY-0815', 'FILE-CANARY-0815', 'DTD-CANARY-0815') if c in seen or c.encode() in out]
            sx.observe('leaks', leaks)
            if 'bomb' in attack:
                # refused as a client-side syntax fault (no exception may escape: the runner reports that by itself)
                code = getattr(ctx.in_error, 'faultcode', None)
                return not leaks and isinstance(code, str) and code.startswith('Client') and len(out) < 100000
            return not leaks
        finally:
            os.unlink(path)
            os.unlink(dtd)


# ---------------------------------------------------------------- SOAP with attachments (multipart/related) parse path
from spyne.model.binary import ByteArray


class SwaSvc(Service):
    @rpc(Unicode, ByteArray, _returns=Unicode)
    def echo(ctx, s, data):
        SEEN['args'] = (s, data)
        return s


SWA_APPS = {}
SWA_ATTACKS = ['none', 'internal entity in text', 'entity chain in text', 'external entity in text', 'internal entity in attribute',
               'entity expansion bomb in text']


@harness('C17', params=[(p, a) for p in ('Soap11', 'Soap12') for a in SWA_ATTACKS], label=lambda p: '%s %s' % p,
         functions=['spyne.protocol.soap.mime.collapse_swa', 'spyne.protocol.soap.mime._join_attachment',
                    'spyne.protocol.soap.soap11.Soap11.create_in_document'],
         bounds={'attacks': 'the same attack documents sent as the root part of a multipart/related (SOAP with attachments) '
                            'request with one attachment that is spliced into the envelope, through WsgiApplication; '
                            'attachment referenced by Content-ID or by Content-Location'})
def swa_entity_canaries(sx, p):
    """the multipart parse path is as safe as the plain one: no entity replacement text reaches user code or the response,
    and nothing escapes the WSGI callable"""
    import io, os, tempfile
    from spyne.server.wsgi import WsgiApplication
    pname, attack = p
    if pname not in SWA_APPS:
        SWA_APPS[pname] = Application([SwaSvc], 'tns', in_protocol=PROTS[pname](), out_protocol=PROTS[pname]())
    app = SWA_APPS[pname]
    by = sx.choose('attachment_by', ['Content-ID', 'Content-Location'])
    fd, path = tempfile.mkstemp(suffix='.txt')
    os.write(fd, b'FILE-CANARY-0815')
    os.close(fd)
    try:
        doctype, s_el, data_attr = '', '<s>plain</s>', ''
        if attack == 'internal entity in text':
            doctype, s_el = '<!DOCTYPE Envelope [<!ENTITY x "INT-CANARY-0815">]>', '<s>a&x;b</s>'
        elif attack == 'entity chain in text':
            doctype = '<!DOCTYPE Envelope [<!ENTITY a "INT-CANARY-0815"><!ENTITY b "&a;&a;"><!ENTITY c "&b;&b;">]>'
            s_el = '<s>x&c;y</s>'
        elif attack == 'external entity in text':
            doctype, s_el = '<!DOCTYPE Envelope [<!ENTITY x SYSTEM "file://%s">]>' % path, '<s>a&x;b</s>'
        elif attack == 'internal entity in attribute':
            doctype, data_attr = '<!DOCTYPE Envelope [<!ENTITY x "INT-CANARY-0815">]>', ' note="&x;"'
        elif attack.startswith('entity expansion bomb'):
            doctype = '<!DOCTYPE Envelope [<!ENTITY a0 "INT-CANARY-0815">' + ''.join(
                '<!ENTITY a%d "%s">' % (i, ('&a%d;' % (i - 1)) * 10) for i in range(1, 10)) + ']>'
            s_el = '<s>&a9;</s>'
        env = 'http://schemas.xmlsoap.org/soap/envelope/' if pname == 'Soap11' else 'http://www.w3.org/2003/05/soap-envelope'
        href = 'cid:att1' if by == 'Content-ID' else 'att1.bin'
        soap = ('<?xml version="1.0"?>%s<s:Envelope xmlns:s="%s"><s:Body><echo xmlns="tns">%s<data%s><xop:Include '
                'xmlns:xop="http://www.w3.org/2004/08/xop/include" href="%s"/></data></echo></s:Body></s:Envelope>'
                % (doctype, env, s_el, data_attr, href))
        part_hdr = 'Content-ID: <att1>' if by == 'Content-ID' else 'Content-ID: <>\r\nContent-Location: att1.bin'
        body = ('--BOUND\r\nContent-Type: application/xop+xml; charset=UTF-8; type="text/xml"\r\nContent-ID: <root>\r\n\r\n'
                '%s\r\n--BOUND\r\nContent-Type: application/octet-stream\r\n%s\r\n\r\naGVsbG8=\r\n--BOUND--\r\n'
                % (soap, part_hdr)).encode()
        environ = {'REQUEST_METHOD': 'POST', 'PATH_INFO': '/', 'QUERY_STRING': '', 'SERVER_NAME': 'localhost',
                   'SERVER_PORT': '80', 'wsgi.url_scheme': 'http', 'wsgi.input': io.BytesIO(body),
                   'CONTENT_LENGTH': str(len(body)),
                   'CONTENT_TYPE': 'multipart/related; boundary="BOUND"; type="application/xop+xml"; start="<root>"'}
        SEEN.clear()
        status = []
        out = b''.join(WsgiApplication(app)(environ, lambda s, h, e=None: status.append(s)))
        seen = repr(SEEN.get('args'))
        leaks = [c for c in ('INT-CANARY-0815', 'FILE-CANARY-0815') if c in seen or c.encode() in out]
        sx.observe('leaks', leaks)
        sx.observe('status', status)
        if attack == 'none':
            return status[0].startswith('200') and SEEN.get('args') is not None and SEEN['args'][0] == 'plain'
        if attack == 'internal entity in attribute':
            return True     # libxml2 expands internal entities in attribute values in every mode (recorded finding of entity_canaries)
        return not leaks and len(out) < 100000
    finally:
        os.unlink(path)

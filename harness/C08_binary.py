"""C08 — ByteArray text forms (base64, hex, urlsafe_base64): lexical space and round trip, for values given
as one or several chunks of symbolic bytes."""
from symx.api import harness

from spyne.model.binary import ByteArray, BINARY_ENCODING_HEX, BINARY_ENCODING_BASE64, BINARY_ENCODING_URLSAFE_BASE64
from spyne.protocol import ProtocolBase

PROT = ProtocolBase()
TYPES = {'base64': ByteArray(encoding='base64'), 'hex': ByteArray(encoding='hex'),
         'urlsafe_base64': ByteArray(encoding='urlsafe_base64')}
LEX = {'base64': r'(([A-Za-z0-9+/]{4})*([A-Za-z0-9+/]{3}=|[A-Za-z0-9+/]{2}[AEIMQUYcgkosw048]=|[A-Za-z0-9+/][AQgw]==)?)',
       'hex': r'([0-9a-fA-F]{2})*',
       'urlsafe_base64': r'(([A-Za-z0-9_-]{4})*([A-Za-z0-9_-]{3}=|[A-Za-z0-9_-]{2}==)?)'}
SHAPES = [(1,), (2,), (3,), (4,), (1, 1), (1, 2), (2, 2), (3, 1), (1, 1, 1)]
DEEP_SHAPES = SHAPES + [(5,), (6,), (3, 3), (2, 2, 2), (4, 1), (1, 4), (2, 3)]


@harness('C08', tier_params={'quick': [(e, s) for e in sorted(TYPES) for s in SHAPES],
                             'thorough': [(e, s) for e in sorted(TYPES) for s in DEEP_SHAPES]}, label=lambda p: '%s chunks=%s' % p,
         functions=['spyne.protocol._outbase.OutProtocolBase.byte_array_to_unicode',
                    'spyne.protocol._inbase.InProtocolBase.byte_array_from_bytes',
                    'spyne.model.binary.ByteArray.to_base64', 'spyne.model.binary.ByteArray.from_base64',
                    'spyne.model.binary.ByteArray.to_hex', 'spyne.model.binary.ByteArray.from_hex',
                    'spyne.model.binary.ByteArray.to_urlsafe_base64', 'spyne.model.binary.ByteArray.from_urlsafe_base64'],
         bounds={'value': 'every byte string of up to 4 bytes (thorough: 6), given as 1..3 chunks (every chunking listed), all bytes symbolic',
                 'model': 'base64 / hex coding itself is modelled (binascii is C); validated on every witness'})
def bytearray_roundtrip(sx, p):
    """the text written for a ByteArray value is a literal of the advertised type and reads back as the same
    bytes, however the value is split into chunks"""
    enc, shape = p
    T = TYPES[enc]
    chunks = [sx.text('c%d' % i, n, lo=0, hi=255, bytes_=True) for i, n in enumerate(shape)]
    whole = b''
    for c in chunks:
        whole = whole + c
    text = PROT.to_unicode(T, tuple(chunks))
    sx.observe('text', text)
    lex = sx.matches(LEX[enc], text)
    back = PROT.from_unicode(T, text)
    if not isinstance(back, (tuple, list)):
        return False
    got = b''
    for c in back:
        got = got + c
    return sx.And(lex, sx.eq(got, whole))


DEFAULT_T = ByteArray
SUGGESTED = ['base64', 'hex', 'urlsafe_base64']
SUGG_CONST = {'base64': BINARY_ENCODING_BASE64, 'hex': BINARY_ENCODING_HEX, 'urlsafe_base64': BINARY_ENCODING_URLSAFE_BASE64}


@harness('C08', params=[(e, sg, s) for e in sorted(TYPES) + ['default'] for sg in SUGGESTED for s in [(2,), (3,), (1, 2)]],
         label=lambda p: 'type=%s protocol-suggests=%s chunks=%s' % p,
         functions=['spyne.protocol._outbase.OutProtocolBase.byte_array_to_unicode',
                    'spyne.protocol._inbase.InProtocolBase.byte_array_from_bytes'],
         bounds={'value': 'every byte string of 2..3 bytes in the listed chunkings',
                 'configurations': "every pairing of the type's own encoding (base64 / hex / urlsafe_base64 / not set) with "
                                   "the binary encoding the surrounding protocol suggests (what XmlDocument, the dict "
                                   "documents and HttpRpc pass as the third argument of to_unicode / from_unicode)"})
def bytearray_protocol_suggestion(sx, p):
    """writer and reader agree on the effective encoding - the type's own when set, the protocol's otherwise - so
    the text is in that encoding's lexical space and reads back as the same bytes"""
    enc, sugg, shape = p
    T = TYPES[enc] if enc != 'default' else DEFAULT_T
    eff = enc if enc != 'default' else sugg
    chunks = [sx.text('c%d' % i, n, lo=0, hi=255, bytes_=True) for i, n in enumerate(shape)]
    whole = b''
    for c in chunks:
        whole = whole + c
    text = PROT.to_unicode(T, tuple(chunks), SUGG_CONST[sugg])
    sx.observe('text', text)
    lex = sx.matches(LEX[eff], text)
    back = PROT.from_unicode(T, text, SUGG_CONST[sugg])
    if not isinstance(back, (tuple, list)):
        return False
    got = b''
    for c in back:
        got = got + c
    return sx.And(lex, sx.eq(got, whole))


WS = [' ', '\n', '\r\n', '\t', '  ']


@harness('C08', params=[(n, w) for n in (1, 2, 3, 4) for w in range(len(WS))], label=lambda p: 'bytes=%d whitespace=%r' % (p[0], WS[p[1]]),
         functions=['spyne.protocol._inbase.InProtocolBase.byte_array_from_bytes', 'spyne.model.binary.ByteArray.from_base64'],
         bounds={'literal': 'the canonical base64 text of every byte string of 1..4 bytes with one run of XML whitespace (space, LF, '
                            'CRLF, tab, two spaces) inserted at any position, leading and trailing included - xs:base64Binary allows '
                            'whitespace between the characters (line-wrapped literals)'})
def base64_read_lexical(sx, p):
    """a line-wrapped or blank-separated xs:base64Binary literal is read as the bytes it denotes"""
    n, w = p
    T = TYPES['base64']
    data = sx.text('data', n, lo=0, hi=255, bytes_=True)
    canon = PROT.to_unicode(T, (data,))
    L = 4 * ((n + 2) // 3)
    pos = sx.choose('pos', list(range(0, L + 1)))
    text = canon[:pos] + WS[w] + canon[pos:]
    sx.observe('text', text)
    back = PROT.from_unicode(T, text)
    if not isinstance(back, (tuple, list)):
        return False
    got = b''
    for c in back:
        got = got + c
    return sx.eq(got, data)

"""C01, validator='lxml' — a request whose leaves are what spyne itself writes for conformant values is accepted by the
published schema the lxml validator compiles, boundary values included (same harness body as C06.emitted_text_is_valid:
the schema's facets are read from the generated document on every run and interpreted symbolically)."""
from symx.api import harness
from harness import C06_schema as h6

_h = h6.emitted_text_is_valid.harness
lxml_accepts_conformant = harness('C01', name='lxml_accepts_conformant', params=_h.params, label=_h.label,
                                  functions=_h.functions, bounds=_h.bounds)(_h.fn)


# a third-party client may wrap its base64 lines (MIME style) or indent the element: xs:base64Binary allows white space
# between the characters, the lxml validator accepts such documents - and the value must arrive as the same bytes
# (same harness body as C08.base64_read_lexical)
from harness import C08_binary as h8

_b = h8.base64_read_lexical.harness
base64_with_white_space = harness('C01', name='base64_with_white_space', params=_b.params, label=_b.label,
                                  functions=_b.functions, bounds=_b.bounds)(_b.fn)

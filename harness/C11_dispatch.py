"""C11 — a request runs exactly the method it names (symbolic requested name)."""
from symx.api import harness
from harness.common import mk_element

from spyne import Application, Service, rpc
from spyne.model.primitive import Integer
from spyne.error import ResourceNotFoundError
from spyne.model.fault import Fault
from spyne.protocol.json import JsonDocument
from spyne.protocol.xml import XmlDocument
from spyne.protocol.soap import Soap11
from spyne.protocol.http import HttpRpc
from spyne.protocol.msgpack import MessagePackRpc
from spyne.server import ServerBase
from spyne.server.wsgi import WsgiApplication, WsgiMethodContext
from spyne.context import MethodContext


class A(Service):
    @rpc(_returns=Integer)
    def get(ctx):
        return 1

    @rpc(_returns=Integer)
    def Get(ctx):
        return 2

    @rpc(_returns=Integer)
    def get_(ctx):
        return 3

    @rpc(_returns=Integer, _operation_name='fetch')
    def internal_name(ctx):
        return 4


class B(Service):
    @rpc(_returns=Integer)
    def xget(ctx):
        return 5

    @rpc(_returns=Integer)
    def getx(ctx):
        return 6

    @rpc(_returns=Integer, _in_message_name='getMsg')
    def get2(ctx):
        return 7


TNS = 'urn:t'
REGISTERED = {}      # public name -> function result id


def mk(in_p, out_p=None, order=(A, B)):
    return Application(list(order), TNS, in_protocol=in_p, out_protocol=out_p or JsonDocument())


APPS = {'json': mk(JsonDocument()), 'json-BA': mk(JsonDocument(), order=(B, A)), 'xml': mk(XmlDocument(), XmlDocument()),
        'soap11': mk(Soap11(), Soap11()), 'http': mk(HttpRpc()), 'msgpackrpc': mk(MessagePackRpc(), MessagePackRpc())}


def public_names(app):
    """'{tns}name' -> set of function names, read from the live routing table"""
    out = {}
    for k, descs in app.interface.service_method_map.items():
        out[k] = sorted(d.function.__name__ for d in descs)
    return out


NAMES = sorted(k.split('}')[1] for k in public_names(APPS['json']))
LENS = sorted(set(len(n) for n in NAMES) | set(len(n) + 1 for n in NAMES) | {max(len(n) for n in NAMES) + 2, 1, 2})
LENS_T = list(range(1, max(LENS) + 3))
ALPHA = 'getGxfchMs_2'


def _expect(sx, app, name_text, ns_ok=True):
    """SBool: `name_text` is a registered public name; and the handles expected for it"""
    table = public_names(app)
    conds = []
    for k in table:
        n = k.split('}')[1]
        if len(n) == sx.length(name_text):
            conds.append((n, sx.eq(name_text, n)))
    return conds


def _judge(sx, app, name_text, fn, ns_ok=True):
    """run fn() -> list of descriptors or ResourceNotFoundError; compare with the routing table"""
    conds = _expect(sx, app, name_text)
    try:
        handles = fn()
    except ResourceNotFoundError:
        return sx.Not(sx.And(ns_ok, sx.Or(*[c for _, c in conds]))) if conds else True
    got = sorted(d.function.__name__ for d in handles)
    sx.observe('functions', got)
    table = public_names(app)
    ok = [ns_ok]
    hit = []
    for n, c in conds:
        hit.append(sx.And(c, got == table['{%s}%s' % (TNS, n)]))
    ok.append(sx.Or(*hit) if hit else False)
    return sx.And(*ok)


FUNCS = ['spyne.protocol._base.ProtocolMixin.get_call_handles', 'spyne.protocol._base.ProtocolMixin.generate_method_contexts',
         'spyne.protocol.dictdoc._base.DictDocument.decompose_incoming_envelope',
         'spyne.protocol.dictdoc._base.DictDocument.gen_method_request_string',
         'spyne.protocol.xml.XmlDocument.decompose_incoming_envelope',
         'spyne.protocol.msgpack.MessagePackRpc.decompose_incoming_envelope',
         'spyne.server.wsgi.WsgiApplication.decompose_incoming_envelope']
BOUNDS = {'name': 'every string of length 1, 2, len(registered), len(registered)+1, max+2 over the letters of the registered '
                  'names (so case variants, prefixes, suffixes and near misses of every registered name are inside)',
          'application': 'two services, seven methods with adversarially similar names (get, Get, get_, xget, getx, custom '
                         'operation name fetch, custom in-message name getMsg), both service orders'}


@harness('C11', tier_params={'quick': [(a, L) for a in ('json', 'json-BA') for L in LENS], 'thorough': [(a, L) for a in ('json', 'json-BA') for L in LENS_T]}, label=lambda p: '%s len=%d' % p,
         functions=FUNCS, bounds=BOUNDS)
def json_key(sx, p):
    """JSON: the single key names the method; exactly its registered function is selected, else not-found"""
    aname, L = p
    app = APPS[aname]
    prot = app.in_protocol
    name = sx.text('name', L, alphabet=ALPHA)
    ctx = MethodContext(ServerBase(app), MethodContext.SERVER)
    ctx.in_document = sx.mkdict([(name, {})])

    def run():
        prot.decompose_incoming_envelope(ctx, prot.REQUEST)
        return [c.descriptor for c in prot.generate_method_contexts(ctx)]
    return _judge(sx, app, name, run)


@harness('C11', tier_params={'quick': [(a, L, nsk) for a in ('xml', 'soap11') for L in LENS for nsk in ('tns', 'other', 'none')],
                             'thorough': [(a, L, nsk) for a in ('xml', 'soap11') for L in LENS_T for nsk in ('tns', 'other', 'none')]},
         label=lambda p: '%s len=%d ns=%s' % p, functions=FUNCS, bounds=BOUNDS)
def xml_root_tag(sx, p):
    """XML/SOAP: the qualified root tag names the method; a foreign or missing namespace never matches"""
    aname, L, nsk = p
    app = APPS[aname]
    prot = app.in_protocol
    name = sx.text('name', L, alphabet=ALPHA.replace('2', ''))      # XML names cannot start with a digit
    if nsk == 'tns':
        tag, ns_ok = '{' + TNS + '}' + name, True
    elif nsk == 'other':
        ns = 'urn:' + sx.text('ns', 1, alphabet='tTux')
        tag, ns_ok = '{' + ns + '}' + name, sx.eq(ns, TNS)
    else:
        tag, ns_ok = name, True     # an unqualified tag is resolved in the target namespace
    ctx = MethodContext(ServerBase(app), MethodContext.SERVER)
    el = mk_element(sx, tag)
    ctx.in_document = el

    def run():
        if aname == 'xml':
            ctx.in_body_doc = el
            ctx.method_request_string = el.tag
        else:
            ctx.in_body_doc = el
            ctx.method_request_string = el.tag
        return [c.descriptor for c in prot.generate_method_contexts(ctx)]
    return _judge(sx, app, name, run, ns_ok)


@harness('C11', tier_params={'quick': LENS, 'thorough': LENS_T}, label=lambda L: 'len=%d' % L, functions=FUNCS, bounds=BOUNDS)
def msgpack_rpc_field(sx, L):
    """msgpack-rpc: the third field of [type, msgid, method, params] names the method"""
    app = APPS['msgpackrpc']
    prot = app.in_protocol
    name = sx.text('name', L, alphabet=ALPHA)
    kind = sx.choose('as', ['str', 'bytes'])
    ctx = MethodContext(ServerBase(app), MethodContext.SERVER)
    ctx.in_document = [0, 1, name.encode('utf8') if kind == 'bytes' else name, []]

    def run():
        prot.decompose_incoming_envelope(ctx, prot.REQUEST)
        return [c.descriptor for c in prot.generate_method_contexts(ctx)]
    return _judge(sx, app, name, run)


@harness('C11', tier_params={'quick': LENS, 'thorough': LENS_T}, label=lambda L: 'len=%d' % L, functions=FUNCS, bounds=BOUNDS)
def http_path(sx, L):
    """HttpRpc over WSGI: the last path segment names the method"""
    app = APPS['http']
    prot = app.in_protocol
    w = WsgiApplication(app)
    name = sx.text('name', L, alphabet=ALPHA)
    pre = sx.choose('prefix', ['/', '/api/', '/get/'])
    env = {'REQUEST_METHOD': 'GET', 'PATH_INFO': pre + name, 'QUERY_STRING': '', 'SERVER_NAME': 'localhost',
           'SERVER_PORT': '80', 'wsgi.url_scheme': 'http'}
    ctx = WsgiMethodContext(w, env, 'text/plain')
    ctx.in_document = env

    def run():
        prot.decompose_incoming_envelope(ctx, prot.REQUEST)
        return [c.descriptor for c in prot.generate_method_contexts(ctx)]
    return _judge(sx, app, name, run)


# ---------------------------------------------------------------- HttpPattern routing
from spyne.protocol.http import HttpPattern
from spyne.model.primitive import Unicode


from spyne import ComplexModel as _CM


class PatParcel(_CM):
    __namespace__ = TNS
    n = Integer


class P(Service):
    @rpc(_returns=Integer, _patterns=[HttpPattern('/user', verb='GET')])
    def user(ctx):
        return 1

    @rpc(Unicode, _returns=Integer, _patterns=[HttpPattern('/item/<item_id>', verb='GET')])
    def item(ctx, item_id):
        return 2

    @rpc(_returns=Integer, _patterns=[HttpPattern('/ping')])
    def ping(ctx):
        return 3

    @rpc(_returns=Integer, _patterns=[HttpPattern('/user/ping', verb='(GET|POST)')])
    def userping(ctx):
        return 4

    @rpc(_returns=Integer, _patterns=[HttpPattern('/item/spin', verb='GET')])
    def itemspin(ctx):
        return 5

    # the other placeholder spelling
    @rpc(Unicode, _returns=Integer, _patterns=[HttpPattern('/pin/{pin_id}', verb='GET')])
    def pin(ctx, pin_id):
        return 7

    # a bare-style method and one whose message lives in another namespace, each behind a pattern: the pattern selects
    # the method by its public name, whatever its message class is called
    @rpc(PatParcel, _returns=Integer, _body_style='bare', _patterns=[HttpPattern('/put', verb='GET')])
    def put_parcel(ctx, p):
        return 8

    @rpc(_returns=Integer, _in_message_name='{urn:elsewhere}pig', _patterns=[HttpPattern('/pig', verb='GET')])
    def pig(ctx):
        return 9

    # no explicit address: the pattern answers at the registered (in-message) name, not at the function's name
    @rpc(_returns=Integer, _in_message_name='ting', _patterns=[HttpPattern(verb='GET')])
    def get_ting(ctx):
        return 6


# the reference routing table, written down independently of what spyne compiles: (registered name, whole-path
# regular expression, verb expression); literal addresses are listed before the one with a placeholder
REF_ROUTES = [('itemspin', r'/item/spin', 'GET'), ('ping', r'/ping', None), ('ting', r'/ting', 'GET'), ('user', r'/user', 'GET'),
              ('userping', r'/user/ping', '(GET|POST)'), ('item', r'/item/[^/]*', 'GET'), ('pin', r'/pin/[^/]*', 'GET'),
              ('put_parcel', r'/put', 'GET'), ('pig', r'/pig', 'GET')]


PAPP = Application([P], TNS, in_protocol=HttpRpc(), out_protocol=JsonDocument())
PW = WsgiApplication(PAPP)


@harness('C11', tier_params={'quick': [1, 4, 5, 6, 7, 8, 9, 10, 11], 'thorough': list(range(1, 14))}, label=lambda L: 'pathlen=%d' % L,
         functions=['spyne.server.http.HttpBase.match_pattern', 'spyne.protocol.http.HttpPattern._compile_url_pattern'],
         bounds={'path': 'every path of the given lengths over the characters of the registered addresses '
                         '(/user, /item/<item_id>, /pin/{pin_id}, /item/spin, /ping, /user/ping, and /ting for an address-less pattern of a method registered under a custom name) plus foreign characters; verbs GET, POST, PUT; on a fresh transport or after one earlier request (/item/42 or /pin/x) on the same transport'})
def http_pattern(sx, L):
    """HttpPattern routing: the method whose address pattern matches the *whole* path (and whose verb matches) is
    selected; a path that merely starts with, ends with or resembles a registered address selects nothing"""
    import re
    path = '/' + sx.text('path', L - 1, alphabet='/useritmpng4X_') if L > 1 else '/'
    verb = sx.choose('verb', ['GET', 'POST', 'PUT'])
    env = {'REQUEST_METHOD': verb, 'PATH_INFO': '/', 'QUERY_STRING': '', 'SERVER_NAME': 'localhost',
           'SERVER_PORT': '80', 'wsgi.url_scheme': 'http'}
    # routing does not depend on what the transport served before
    pw = WsgiApplication(PAPP)
    earlier = sx.choose('earlier_request', [None, '/item/42', '/pin/x'])
    if earlier is not None:
        pw.match_pattern(WsgiMethodContext(pw, dict(env, REQUEST_METHOD='GET'), 'text/plain'), 'GET', earlier, 'localhost')
    ctx = WsgiMethodContext(pw, env, 'text/plain')
    params = pw.match_pattern(ctx, verb, path, 'localhost')
    got = ctx.method_request_string
    sx.observe('selected', got)
    # reference: among the patterns whose address matches the whole path (and whose verb matches), a literal
    # address wins over one with a placeholder (the most specific address answers)
    want = []
    for name, addr, verbs in REF_ROUTES:
        if verbs is not None and re.fullmatch(verbs, verb) is None:
            continue
        want.append((name, sx.matches(addr, path)))
    ok = []
    none_before = True
    for name, m in want:
        ok.append(sx.Implies(sx.And(none_before, m), got == name))
        none_before = sx.And(none_before, sx.Not(m))
    ok.append(sx.Implies(none_before, got is None))
    return sx.And(*ok)


# ---------------------------------------------------------------- colliding names are rejected at construction
from spyne import ComplexModel


class Parcel(ComplexModel):
    __namespace__ = TNS
    n = Integer


def _colliding(kind):
    if kind == 'same-name wrapped':
        class S1(Service):
            @rpc(_returns=Integer)
            def run(ctx):
                return 1

        class S2(Service):
            @rpc(_returns=Integer)
            def run(ctx):
                return 2
    elif kind == 'operation_name':
        class S1(Service):
            @rpc(_returns=Integer)
            def run(ctx):
                return 1

        class S2(Service):
            @rpc(_returns=Integer, _operation_name='run')
            def other(ctx):
                return 2
    elif kind == 'bare in_message_name':
        class S1(Service):
            @rpc(Parcel, _returns=Integer, _body_style='bare')
            def submit(ctx, p):
                return 1

        class S2(Service):
            @rpc(Parcel, _returns=Integer, _body_style='bare', _in_message_name='submit')
            def ship(ctx, p):
                return 2
    elif kind in ('twin services bare', 'twin services wrapped'):
        # two different service classes stamped out by one factory: same module, same class name, same method
        def make(ret):
            kw = {'_body_style': 'bare'} if kind.endswith('bare') else {}

            class Twin(Service):
                @rpc(Parcel, _returns=Integer, **kw)
                def submit(ctx, p):
                    return ret
            return Twin
        S1, S2 = make(1), make(2)
    elif kind == 'same public name, other function':
        # two services stamped out under one class name whose differently named functions publish the same bare message
        def make(ret, fname):
            def fn(ctx, p):
                return ret
            fn.__name__ = fname
            return type('Stamp', (Service,), {fname: rpc(Parcel, _returns=Integer, _body_style='bare', _in_message_name='submit')(fn)})
        S1, S2 = make(1, 'alpha'), make(2, 'beta')
    elif kind == 'primary and auxiliary':
        # not a collision: an auxiliary service may shadow the methods of a primary one, whichever is listed first
        from spyne.auxproc.sync import SyncAuxProc

        class S1(Service):
            __aux__ = SyncAuxProc()

            @rpc(_returns=Integer)
            def run(ctx):
                return 1

        class S2(Service):
            @rpc(_returns=Integer)
            def run(ctx):
                return 2
    else:
        raise ValueError(kind)
    return S1, S2


@harness('C11', params=['same-name wrapped', 'operation_name', 'bare in_message_name', 'twin services bare', 'twin services wrapped', 'primary and auxiliary',
                        'same public name, other function'],
         functions=['spyne.interface._base.Interface.process_method', 'spyne.application.Application.check_unique_method_keys'],
         bounds={'universes': 'six concrete pairs of services whose methods answer to the same name and one primary/auxiliary pair, in both orders '
                              '(enumeration of programs, no symbolic input)'})
def colliding_names_rejected(sx, kind):
    """two methods that would answer to the same name are rejected when the application is constructed - or, if the
    application is accepted, which function answers does not depend on the order of the services"""
    order = sx.choose('order', ['S1,S2', 'S2,S1'])
    S1, S2 = _colliding(kind)
    services = [S1, S2] if order == 'S1,S2' else [S2, S1]
    try:
        app = Application(services, TNS, in_protocol=JsonDocument(), out_protocol=JsonDocument(),
                          name='Coll_%s_%s' % (kind.replace(' ', '_'), order.replace(',', '')))
    except Exception:
        return kind != 'primary and auxiliary'       # that pair is legal in either order
    if kind == 'primary and auxiliary':
        descs = app.interface.service_method_map['{%s}run' % TNS]
        if [d.service_class for d in descs] != [S2, S1]:
            return False                             # the primary method answers, the auxiliary one follows it
    # accepted: then the name must not be ambiguous - at most one primary function may answer to each name
    who = lambda d: ('S1' if d.service_class is S1 else 'S2' if d.service_class is S2 else '?') + '.' + d.function.__name__
    names = {}
    for k, descs in app.interface.service_method_map.items():
        names[k] = sorted(who(d) for d in descs)
    other = Application(list(reversed(services)), TNS, in_protocol=JsonDocument(), out_protocol=JsonDocument(),
                        name='CollR_%s_%s' % (kind.replace(' ', '_'), order.replace(',', '')))
    names2 = dict((k, sorted(who(d) for d in descs)) for k, descs in other.interface.service_method_map.items())
    sx.observe('map', names)
    return names == names2


# ---------------------------------------------------------------- services stamped out by a factory
FRAN = []


def _factory_service(i, style):
    # (the internal key suffix is what spyne asks for when one python function is registered more than once)
    kw = {'_in_message_name': 'op_%d' % i, '_out_message_name': 'op_%dResponse' % i, '_internal_key_suffix': '_%d' % i}

    class Stamped(Service):          # same class name, same module, same function name for every i
        @rpc(Integer, _returns=Integer, **kw)
        def op(ctx, a):
            FRAN.append(i)
            return i
    return Stamped


@harness('C11', params=['message_names'],
         functions=['spyne.descriptor.MethodDescriptor.gen_interface_key', 'spyne.interface._base.Interface.process_method'],
         bounds={'universes': 'three services produced by one factory (same class name, module and python function name) that differ '
                              'only in the public name of their method; every order of the service list; JSON key, HttpRpc path and '
                              'XML root tag'})
def factory_services_dispatch(sx, style):
    """public names, not python names, identify methods: each of the three names runs exactly the function of its own
    service, in every order of the service list"""
    import io
    import itertools
    from spyne.server.wsgi import WsgiApplication
    from spyne.protocol.xml import XmlDocument
    order = sx.choose('order', list(itertools.permutations(range(3))))
    which = sx.choose('requested', [0, 1, 2])
    proto = sx.choose('protocol', ['json', 'http', 'xml'])
    services = [_factory_service(i, style) for i in order]
    inp, outp = {'json': (JsonDocument(), JsonDocument()), 'http': (HttpRpc(), JsonDocument()), 'xml': (XmlDocument(), XmlDocument())}[proto]
    try:
        app = Application(services, TNS, in_protocol=inp, out_protocol=outp, name='Factory_%s_%s' % (style, ''.join(map(str, order))))
    except Exception as e:
        sx.observe('rejected', repr(e)[:80])
        return False                # the names are distinct: nothing to reject
    name = 'op_%d' % which
    body, env = {'json': (('{"%s": {"a": 1}}' % name).encode(), {}),
                 'http': (b'', {'REQUEST_METHOD': 'GET', 'PATH_INFO': '/' + name, 'QUERY_STRING': 'a=1'}),
                 'xml': (('<%s xmlns="%s"><a>1</a></%s>' % (name, TNS, name)).encode(), {})}[proto]
    environ = {'REQUEST_METHOD': 'POST', 'PATH_INFO': '/', 'QUERY_STRING': '', 'SERVER_NAME': 'localhost', 'SERVER_PORT': '80',
               'wsgi.url_scheme': 'http', 'wsgi.input': io.BytesIO(body), 'CONTENT_LENGTH': str(len(body)), 'CONTENT_TYPE': 'text/plain'}
    environ.update(env)
    del FRAN[:]
    status = []
    b''.join(WsgiApplication(app)(environ, lambda s, h, e=None: status.append(s)))
    sx.observe('status', status)
    sx.observe('ran', list(FRAN))
    return status[0].startswith('200') and FRAN == [which]


# ---------------------------------------------------------------- MessagePackDocument: bytes keys
from spyne.protocol.msgpack import MessagePackDocument
from spyne.model.fault import Fault as _Fault

MPAPP = mk(MessagePackDocument(), MessagePackDocument())


@harness('C11', functions=['spyne.protocol.msgpack.MessagePackDocument.gen_method_request_string',
                           'spyne.protocol._base.ProtocolMixin.get_call_handles'],
         bounds={'key': 'the single key of a MessagePack document as str or bin: every registered name and three near misses, as it is '
                        'or with stray bytes that are not valid UTF-8 (0xff, 0xc3, 0xfe 0xff) before, after or inside it'})
def msgpack_document_key(sx, p):
    """MessagePackDocument: a key that is not exactly a registered name - stray undecodable bytes included - selects nothing"""
    app = MPAPP
    prot = app.in_protocol
    base = sx.choose('name', NAMES + ['nope', 'ge', 'gett'])
    kind = sx.choose('as', ['str', 'bytes'])
    stray = sx.choose('stray', [None, b'\xff', b'\xc3', b'\xfe\xff']) if kind == 'bytes' else None
    key = base.encode('utf8') if kind == 'bytes' else base
    if stray is not None:
        at = sx.choose('at', ['before', 'after', 'inside'])
        key = {'before': stray + key, 'after': key + stray, 'inside': key[:1] + stray + key[1:]}[at]
    ctx = MethodContext(ServerBase(app), MethodContext.SERVER)
    ctx.in_document = {key: {}}
    table = public_names(app)
    try:
        prot.decompose_incoming_envelope(ctx, prot.REQUEST)
        got = sorted(c.descriptor.function.__name__ for c in prot.generate_method_contexts(ctx))
    except _Fault as e:
        code = getattr(e, 'faultcode', '')
        return (stray is not None or ('{%s}%s' % (TNS, base)) not in table) and code.startswith('Client')
    sx.observe('functions', got)
    return stray is None and got == table.get('{%s}%s' % (TNS, base))

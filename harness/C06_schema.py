"""C06 — the published XML Schema is truthful about the wire (partial).

The real schema emitters run on a universe of constrained types; the advertised base type, the emitted facets
and the occurrence attributes are read back from the generated schema nodes.  A reference model of XSD
semantics (builtin value spaces, facets, minOccurs/maxOccurs) is compared, for a symbolic leaf text /
occurrence count / value, with spyne's own soft validation and with what spyne writes.  In the native replay
of every witness and counterexample the *real compiled lxml XMLSchema* gives the XSD verdict, so only a real
lxml/soft disagreement is ever reported."""
import re
from symx.api import harness
from harness.common import mk_element, run_soft, int_literal, fake_ctx

from spyne import Application, Service, rpc, ComplexModel
from spyne.model.primitive import (Integer, UnsignedInteger, Integer8, Integer16, Integer32, Integer64,
    UnsignedInteger8, UnsignedInteger16, UnsignedInteger32, UnsignedInteger64, Unicode, Boolean, Decimal, Double, Float)
from spyne.model.binary import ByteArray
from spyne.protocol.xml import XmlDocument
from spyne.interface.xml_schema import XmlSchema

XSD = 'http://www.w3.org/2001/XMLSchema'
TNS = 'tns'

LEAVES = [
    ('byte', Integer8), ('short', Integer16), ('int', Integer32), ('long', Integer64),
    ('ubyte', UnsignedInteger8), ('ushort', UnsignedInteger16), ('uint', UnsignedInteger32), ('ulong', UnsignedInteger64),
    ('integer', Integer), ('nonneg', UnsignedInteger),
    ('i_ge_le', Integer(ge=-5, le=17)), ('i_gt_lt', Integer(gt=-5, lt=17)), ('i_ge', Integer(ge=3)),
    ('i32_range', Integer32(ge=100, le=1000)), ('u8_le', UnsignedInteger8(le=200)),
    ('s_len', Unicode(min_len=2, max_len=4)), ('s_max', Unicode(max_len=3)), ('s_pat', Unicode(pattern='[a-c]+[0-9]')),
    ('s_alt', Unicode(pattern='ab|abc')), ('s_enum', Unicode(values=['ab', 'cd', 'abc'])),
    # combinations of facets on one type
    ('s_fixpat', Unicode(min_len=3, max_len=3, pattern='[a-c]+')), ('s_lenpat', Unicode(min_len=2, max_len=4, pattern='[ab]*9')),
    ('s_maxenum', Unicode(max_len=2, values=['ab', 'abc', 'd'])), ('i_enum', Integer(values=[1, 5, -20])),
    ('i_range_enum', Integer(ge=0, values=[-1, 3, 10])),
]
def max_str_len(name):
    return dict(LEAVES)[name].Attributes.max_str_len


NIL_LEAVES = [('nil_yes', Integer), ('nil_no', Integer(nillable=False)), ('nil_no_default', Integer(nillable=False, default=1)),
              ('nil_yes_default', Unicode(default='x')), ('nil_no_str_default', Unicode(nillable=False, default='EUR'))]

OCC = [(mn, mx) for mn in (0, 1, 2) for mx in (1, 2, 3, 'unbounded') if mx == 'unbounded' or mx >= mn]


class Holder(ComplexModel):
    __namespace__ = TNS
    _type_info = [(n, t.customize(min_occurs=0) if t.Attributes.min_occurs == 0 else t) for n, t in LEAVES] + \
                 [('occ_%s_%s' % g, Integer(min_occurs=g[0], max_occurs=g[1])) for g in OCC if g[0] == 0] + \
                 [('hexbin', ByteArray(encoding='hex')), ('b64bin', ByteArray)] + NIL_LEAVES + [('dbl', Double), ('flt', Float)]


def _occ_holder(g):
    class OccHolder(ComplexModel):
        __namespace__ = TNS
        __type_name__ = 'OccHolder_%s_%s' % g
        _type_info = [('x', Integer(min_occurs=g[0], max_occurs=g[1]))]
    return OccHolder


OCC_HOLDERS = dict((g, _occ_holder(g)) for g in OCC)


class ParentM(ComplexModel):
    __namespace__ = TNS
    _type_info = [('m', Integer(min_occurs=1)), ('r', Integer(max_occurs=2))]


class ChildM(ParentM):
    __namespace__ = TNS
    _type_info = [('z', Integer(min_occurs=1))]


_ns = {}
exec('def f(ctx, h, %s, inh):\n    return h\n' % ', '.join('a%d' % i for i in range(len(OCC))), _ns)


class Svc(Service):
    f = rpc(Holder, *([OCC_HOLDERS[g] for g in OCC] + [ChildM]), _returns=Holder)(_ns['f'])


APP = Application([Svc], TNS, in_protocol=XmlDocument(validator='soft'), out_protocol=XmlDocument())
CTX = fake_ctx(APP)
SOFT = XmlDocument(app=APP, validator='soft')
OUT = XmlDocument(app=APP)
_XS = {}


def schema():
    """(schema root node of tns, compiled lxml schema) built by the real emitters from the current source"""
    if not _XS:
        xs = XmlSchema(APP.interface)
        xs.build_validation_schema()
        pref = APP.interface.get_namespace_prefix(TNS)
        _XS['root'] = xs.schema_dict[pref]
        _XS['compiled'] = xs.validation_schema
    return _XS['root'], _XS['compiled']


def q(n):
    return '{%s}%s' % (XSD, n)


def member_decl(type_name, member):
    """advertised declaration of a member: dict(base=..., facets={...}, minOccurs, maxOccurs, nillable)"""
    root, _ = schema()
    ct = [c for c in root.findall(q('complexType')) if c.get('name') == type_name][0]
    el = [e for e in ct.iter(q('element')) if e.get('name') == member][0]
    out = {'minOccurs': int(el.get('minOccurs', '1')), 'nillable': el.get('nillable') == 'true',
           'maxOccurs': None if el.get('maxOccurs') == 'unbounded' else int(el.get('maxOccurs', '1'))}
    t = el.get('type')
    facets = {}
    enum = []
    while True:
        pfx, name = t.split(':') if ':' in t else (None, t)
        if el.nsmap.get(pfx) == XSD:
            out['base'] = name
            break
        st = [s for s in root.findall(q('simpleType')) if s.get('name') == name][0]
        r = st.find(q('restriction'))
        for f in r:
            k = f.tag.split('}')[1]
            if k == 'enumeration':
                enum.append(f.get('value'))
            else:
                facets.setdefault(k, f.get('value'))
        t = r.get('base')
    if enum:
        facets['enumeration'] = enum
    out['facets'] = facets
    return out


INT_SPACE = {'byte': (-2 ** 7, 2 ** 7 - 1), 'short': (-2 ** 15, 2 ** 15 - 1), 'int': (-2 ** 31, 2 ** 31 - 1),
             'long': (-2 ** 63, 2 ** 63 - 1), 'unsignedByte': (0, 2 ** 8 - 1), 'unsignedShort': (0, 2 ** 16 - 1),
             'unsignedInt': (0, 2 ** 32 - 1), 'unsignedLong': (0, 2 ** 64 - 1), 'integer': (None, None),
             'nonNegativeInteger': (0, None), 'positiveInteger': (1, None), 'decimal': (None, None)}


def xsd_accepts_text(sx, decl, text):
    """reference XSD semantics: is `text` a valid literal of the advertised simple type with its facets?"""
    base, f = decl['base'], decl['facets']
    if base in INT_SPACE:
        lit, val = int_literal(sx, text)
        lo, hi = INT_SPACE[base]
        cs = [lit]
        if lo is not None:
            cs.append(val >= lo)
        if hi is not None:
            cs.append(val <= hi)
        for k, op in (('minInclusive', lambda v, b: v >= b), ('maxInclusive', lambda v, b: v <= b),
                      ('minExclusive', lambda v, b: v > b), ('maxExclusive', lambda v, b: v < b)):
            if k in f:
                cs.append(op(val, int(f[k])))
        if 'enumeration' in f:
            cs.append(sx.Or(*[val == int(v) for v in f['enumeration']]))     # compared in the value space
        return sx.And(*cs)
    if base == 'string':
        n = sx.length(text)
        cs = []
        if 'minLength' in f:
            cs.append(n >= int(f['minLength']))
        if 'maxLength' in f:
            cs.append(n <= int(f['maxLength']))
        if 'length' in f:
            cs.append(n == int(f['length']))
        if 'pattern' in f:
            cs.append(sx.matches(f['pattern'], text))
        if 'enumeration' in f:
            cs.append(sx.Or(*[sx.eq(text, v) for v in f['enumeration']]))
        return sx.And(*cs) if cs else True
    raise ValueError('unmodelled base type %s' % base)


def lxml_accepts(member, texts, holder='Holder', wrapper='h'):
    """the real verdict: validate <f><h><member>text</member>...</h></f> against the compiled schema"""
    from lxml import etree
    _, compiled = schema()
    f = etree.Element('{%s}f' % TNS, nsmap={None: TNS})
    h = etree.SubElement(f, '{%s}%s' % (TNS, wrapper))
    for t in texts:
        e = etree.SubElement(h, '{%s}%s' % (TNS, member))
        e.text = t
    return compiled.validate(f)


FUNCS = ['spyne.interface.xml_schema.model.simple_add', 'spyne.interface.xml_schema.model.complex_add',
         'spyne.interface.xml_schema.model.simple_get_restriction_tag',
         'spyne.interface.xml_schema.model.unicode_get_restriction_tag',
         'spyne.interface.xml_schema.model.Tget_range_restriction_tag',
         'spyne.interface.xml_schema._base.XmlSchema.build_validation_schema',
         'spyne.protocol.xml.XmlDocument.from_element', 'spyne.protocol.xml.XmlDocument.complex_from_element']


@harness('C06', params=[n for n, _ in LEAVES], functions=FUNCS,
         bounds={'text': 'integers: 1..digits+2 characters over 0-9 + - . x; strings: 1..5 characters over a b c d 0 9',
                 'types': '20 constrained leaf types (fixed-width integers, ge/gt/le/lt, min/max length, pattern, enumeration)'})
def schema_vs_soft(sx, name):
    """schema validation and soft validation reach the same verdict on every leaf text"""
    T = dict(LEAVES)[name]
    decl = member_decl('Holder', name)
    if decl['base'] == 'string':
        L = sx.choose('len', [1, 2, 3, 4, 5] if sx.tier == 'quick' else [1, 2, 3, 4, 5, 6])
        text = sx.text('t', L, alphabet='abcd09')
    else:
        lo, hi = INT_SPACE[decl['base']]
        digits = len(str(max(abs(lo or 0), abs(hi or 0)))) if (lo or hi) else 6
        lens = sorted(set(x for x in (1, 2, 3, digits, digits + 1, digits + 2) if 1 <= x <= 22))
        L = sx.choose('len', lens)
        text = sx.text('t', L, alphabet='0123456789+-.x')
    out = run_soft(lambda: SOFT.from_element(CTX, T, mk_element(sx, '{tns}v', text=text)))
    sx.observe('soft', out.accepted)
    if sx.symbolic:
        x = xsd_accepts_text(sx, decl, text)
        return sx.Or(sx.And(x, out.accepted), sx.And(sx.Not(x), not out.accepted))
    return lxml_accepts(name, [text]) == out.accepted


@harness('C06', params=[n for n, _ in NIL_LEAVES], functions=FUNCS,
         bounds={'xsi:nil': 'the member sent as a nil element (xsi:nil = true / 1) or with a value; types nillable or not, with and '
                            'without a declared default'})
def schema_vs_soft_nil(sx, name):
    """the published nillable attribute is what soft validation enforces: a nil element is accepted by both or by neither,
    whether or not the type declares a default"""
    T = dict(NIL_LEAVES)[name]
    decl = member_decl('Holder', name)
    lit = sx.choose('nil_literal', ['true', '1', None])
    attrib = {'{http://www.w3.org/2001/XMLSchema-instance}nil': lit} if lit else {}
    text = None if lit else ('5' if issubclass(T, Integer) else 'abc')
    out = run_soft(lambda: SOFT.from_element(CTX, T, mk_element(sx, '{tns}v', text=text, attrib=attrib)))
    sx.observe('soft', out.accepted)
    if sx.symbolic:
        x = decl['nillable'] or not lit
        return x == out.accepted
    from lxml import etree
    _, compiled = schema()
    f = etree.Element('{%s}f' % TNS, nsmap={None: TNS, 'xsi': 'http://www.w3.org/2001/XMLSchema-instance'})
    h = etree.SubElement(f, '{%s}h' % TNS)
    e = etree.SubElement(h, '{%s}%s' % (TNS, name))
    if lit:
        e.set('{http://www.w3.org/2001/XMLSchema-instance}nil', lit)
    else:
        e.text = text
    return compiled.validate(f) == out.accepted


@harness('C06', params=OCC, label=lambda g: 'min=%s max=%s' % g, functions=FUNCS,
         bounds={'count': '0..max+2 occurrences (5 for unbounded), exhaustively'})
def schema_vs_soft_occurs(sx, g):
    """minOccurs / maxOccurs as published agree with what soft validation enforces"""
    cls = OCC_HOLDERS[g]
    decl = member_decl(cls.get_type_name(), 'x')
    top = 5 if g[1] == 'unbounded' else g[1] + 2
    n = sx.choose('n', list(range(0, top + 1)))
    vals = [sx.digits('v%d' % i, 1) for i in range(n)]
    kids = [mk_element(sx, '{tns}x', text=v) for v in vals]
    out = run_soft(lambda: SOFT.from_element(CTX, cls, mk_element(sx, '{tns}a', children=kids)))
    sx.observe('soft', out.accepted)
    if sx.symbolic:
        x = n >= decl['minOccurs'] and (decl['maxOccurs'] is None or n <= decl['maxOccurs'])
        return x == out.accepted
    idx = OCC.index(g)
    from lxml import etree
    _, compiled = schema()
    f = etree.Element('{%s}f' % TNS, nsmap={None: TNS})
    for j, gg in enumerate(OCC):
        if j == idx:
            a = etree.SubElement(f, '{%s}a%d' % (TNS, j))
            for v in vals:
                etree.SubElement(a, '{%s}x' % TNS).text = v
        elif gg[0] > 0:
            a = etree.SubElement(f, '{%s}a%d' % (TNS, j))
            for _ in range(gg[0]):
                etree.SubElement(a, '{%s}x' % TNS).text = '1'
    return compiled.validate(f) == out.accepted


@harness('C06', params=[n for n, _ in LEAVES if not n.startswith('s_')] + ['hexbin', 'b64bin'],
         functions=FUNCS[:6] + ['spyne.protocol._outbase.OutProtocolBase.to_unicode',
                                'spyne.protocol._outbase.OutProtocolBase.byte_array_to_unicode'],
         bounds={'value': 'every integer admitted by the type (|v| <= 10^22); byte strings from a fixed list of 4'})
def emitted_text_is_valid(sx, name):
    """what spyne writes for a value that satisfies the declared constraints is valid against the schema"""
    if name in ('hexbin', 'b64bin'):
        T = Holder._type_info[name]
        v = sx.choose('bytes', [[b''], [b'\x00\x01\x02\xff'], [b'a', b'bc'], [b'abc', b'd']])
        text = OUT.to_unicode(T, v, OUT.binary_encoding)
        sx.observe('text', text)
        if sx.symbolic:
            pat = '([0-9a-fA-F]{2})*' if name == 'hexbin' else '((([A-Za-z0-9+/] ?){4})*(([A-Za-z0-9+/] ?){3}[A-Za-z0-9+/]|([A-Za-z0-9+/] ?){2}[AEIMQUYcgkosw048] ?=|[A-Za-z0-9+/] ?[AQgw] ?= ?=))?'
            return re.fullmatch(pat, text) is not None
        return lxml_accepts(name, [text])
    T = dict(LEAVES)[name]
    decl = member_decl('Holder', name)
    v = sx.int('v', -10 ** 22, 10 ** 22)
    sx.assume(T.validate_native(T, v))
    text = OUT.to_unicode(T, v)
    sx.observe('text', text)
    if sx.symbolic:
        return xsd_accepts_text(sx, decl, text)
    return lxml_accepts(name, [text])


DOUBLES = [float('inf'), float('-inf'), float('nan'), 0.0, -0.0, 1e308, 5e-324, 1e22, 1e-7, 0.1, -2.5, 123456789.0]


@harness('C06', params=['dbl', 'flt'], functions=['spyne.protocol._outbase.OutProtocolBase.double_to_unicode',
                                                 'spyne.interface.xml_schema.model.simple_add'],
         bounds={'values': 'enumeration, no symbolic input (binary floating point is outside the engine): both infinities, NaN, signed '
                           'zeros, the extremes of the double range and a few ordinary values, for a Double and a Float member'})
def emitted_double_is_valid(sx, name):
    """what spyne writes for a double or float member - the special values included - is valid against the published schema"""
    v = sx.choose('value', DOUBLES)
    T = Holder._type_info[name]
    text = OUT.to_unicode(T, v)
    sx.observe('text', text)
    if sx.symbolic:
        return re.fullmatch(r'[+-]?([0-9]+(\.[0-9]*)?|\.[0-9]+)([Ee][+-]?[0-9]+)?|-?INF|NaN', text) is not None
    return lxml_accepts(name, [text])


def _req_with(extra_name, extra_children_texts):
    """<f> request with every mandatory argument filled minimally and the children of `extra_name` as given"""
    from lxml import etree
    f = etree.Element('{%s}f' % TNS, nsmap={None: TNS})
    for j, gg in enumerate(OCC):
        if gg[0] > 0:
            a = etree.SubElement(f, '{%s}a%d' % (TNS, j))
            for _ in range(gg[0]):
                etree.SubElement(a, '{%s}x' % TNS).text = '1'
    e = etree.SubElement(f, '{%s}%s' % (TNS, extra_name))
    for tag, text in extra_children_texts:
        etree.SubElement(e, '{%s}%s' % (TNS, tag)).text = text
    return f


@harness('C06', functions=FUNCS, bounds={'counts': 'inherited mandatory member 0..2 times, inherited max_occurs=2 member 0..3 '
                                                    'times, own mandatory member 0..1 times (declared order, parents first)'})
def schema_vs_soft_inherited(sx, p):
    """occurrence constraints of inherited members are enforced alike by the schema (xs:extension) and by
    soft validation"""
    nm = sx.choose('n_m', [1, 0, 2])
    nr = sx.choose('n_r', [0, 2, 3])
    nz = sx.choose('n_z', [1, 0])
    kids = [('m', '1')] * nm + [('r', '2')] * nr + [('z', '3')] * nz
    out = run_soft(lambda: SOFT.from_element(CTX, ChildM, mk_element(sx, '{tns}inh', children=[
        mk_element(sx, '{tns}' + t, text=x) for t, x in kids])))
    sx.observe('soft', out.accepted)
    if sx.symbolic:
        dm, dr = member_decl('ParentM', 'm'), member_decl('ParentM', 'r')
        dz = member_decl('ChildM', 'z')
        x = (dm['minOccurs'] <= nm <= (dm['maxOccurs'] or 99)) and (dr['minOccurs'] <= nr <= (dr['maxOccurs'] or 99)) \
            and (dz['minOccurs'] <= nz <= (dz['maxOccurs'] or 99))
        return x == out.accepted
    _, compiled = schema()
    return compiled.validate(_req_with('inh', kids)) == out.accepted


# ---------------------------------------------------------------- the schema compiles (multi-namespace universes)
class ZooRecord(ComplexModel):
    __namespace__ = 'urn:zoo'
    name = Unicode
    legs = Integer


class FarmRecord(ComplexModel):
    __namespace__ = 'urn:farm'
    rec = ZooRecord
    tag = Unicode


class LocalRecord(ComplexModel):
    __namespace__ = TNS
    n = Integer


class PetRec(ComplexModel):
    __namespace__ = 'urn:front'
    name = Unicode


class KeeperBase(ComplexModel):          # urn:back refers to urn:front through this member ...
    __namespace__ = 'urn:back'
    pet = PetRec
    badge = Integer


class Keeper(KeeperBase):                # ... and urn:front extends a type of urn:back
    __namespace__ = 'urn:front'
    shift = Unicode


class Contact(ComplexModel):             # every element member belongs to a choice group
    __namespace__ = TNS
    email = Unicode(xml_choice_group='how')
    phone = Unicode(xml_choice_group='how')


class Shape(ComplexModel):               # declared type of a polymorphic return value ...
    __namespace__ = 'urn:shapes'
    sides = Integer


class Marker(Shape):                     # ... whose subclass lives in a namespace of its own and adds no element
    __namespace__ = 'urn:markers'
    note = Unicode


class Card(ComplexModel):                # a choice group between ordinary members
    __namespace__ = TNS
    _type_info = [('owner', Unicode), ('email', Unicode(xml_choice_group='how')), ('phone', Unicode(xml_choice_group='how')),
                  ('rank', Integer)]


IN_TYPES = {'primitive': Integer, 'foreign': ZooRecord, 'local': LocalRecord, 'nested-foreign': FarmRecord,
            'derived-across-namespaces': Keeper, 'choice-only': Contact, 'choice-between-members': Card}
OUT_TYPES = {'primitive': Unicode, 'foreign': ZooRecord, 'local': LocalRecord, 'nested-foreign': FarmRecord,
             'derived-across-namespaces': Keeper, 'choice-only': Contact, 'choice-between-members': Card,
             'polymorphic-foreign-subclass': Shape}
_COMPILED = {}


@harness('C06', params=[(style, i, o) for style in ('wrapped', 'bare', 'out_bare') for i in sorted(IN_TYPES) for o in sorted(OUT_TYPES)],
         label=lambda p: '%s in=%s out=%s' % p,
         functions=['spyne.interface._base.Interface.add_method', 'spyne.interface._base.Interface.add_class',
                    'spyne.interface.xml_schema._base.XmlSchema.build_schema_nodes',
                    'spyne.interface.xml_schema._base.XmlSchema.build_validation_schema'],
         bounds={'universes': '3 body styles x 7 argument kinds x 8 return kinds (one of them a polymorphic return value whose subclass lives in a namespace of its own) over five namespaces (a type derived across two namespaces that refer to each other, a type whose members all sit in a choice group, a choice group declared between ordinary members) (concrete programs; '
                              'this harness is an enumeration of universes, there is no symbolic input)'})
def schema_compiles(sx, p):
    """for every listed application the generated schema set compiles (every referenced namespace is imported) and both the
    request and the response spyne writes for it are valid against it"""
    style, i, o = p
    from spyne.protocol.soap import Soap11
    kw = {} if style == 'wrapped' else {'_body_style': style}

    out_value = {'primitive': u'txt', 'foreign': ZooRecord(name=u'z', legs=4), 'local': LocalRecord(n=3),
                 'nested-foreign': FarmRecord(rec=ZooRecord(name=u'z', legs=2), tag=u't'),
                 'derived-across-namespaces': Keeper(pet=PetRec(name=u'rex'), badge=7, shift=u'night'),
                 'choice-only': Contact(phone=u'555'), 'choice-between-members': Card(owner=u'o', phone=u'555', rank=2),
                 # (no member of the subclass is set: its namespace occurs in the type marker only)
                 'polymorphic-foreign-subclass': Marker(sides=3)}[o]
    in_value = {'primitive': 7, 'foreign': ZooRecord(name=u'q', legs=1), 'local': LocalRecord(n=1),
                'nested-foreign': FarmRecord(rec=ZooRecord(name=u'q', legs=0), tag=u''),
                'derived-across-namespaces': Keeper(pet=PetRec(name=u'tom'), badge=1, shift=u'day'),
                'choice-only': Contact(email=u'a@b'), 'choice-between-members': Card(owner=u'p', email=u'a@b', rank=1)}[i]

    class S(Service):
        @rpc(IN_TYPES[i], _returns=OUT_TYPES[o], **kw)
        def op(ctx, a):
            return out_value

        @rpc(_returns=Marker)              # (makes the subclass of the polymorphic universe part of the interface)
        def other(ctx):
            return None
    try:
        app = Application([S], TNS, in_protocol=Soap11(), out_protocol=Soap11(polymorphic=(o == 'polymorphic-foreign-subclass')),
                          name='App_%s_%s_%s' % p)
    except Exception as e:
        sx.outside('application rejected at construction: %s' % type(e).__name__)
    xs = XmlSchema(app.interface)
    xs.build_validation_schema()
    if xs.validation_schema is None:
        return False
    # ... and it is truthful about both messages: the request the Spyne client writes for a conformant value and the
    # response the server writes are valid against it (the body entries are the published global elements)
    from spyne.client import RemoteProcedureBase
    from spyne.server import ServerBase
    from spyne.context import MethodContext
    from lxml import etree
    env = 'http://schemas.xmlsoap.org/soap/envelope/'
    if style == 'bare':
        # (the Spyne client does not speak the bare style: the body entry is written with the protocol's own serializer)
        desc = app.interface.service_method_map['{%s}op' % TNS][0]
        tmp = etree.Element('tmp')
        app.out_protocol.to_parent(None, desc.in_message, in_value, tmp, TNS, 'op')
        req = (b'<e:Envelope xmlns:e="' + env.encode() + b'"><e:Body>' + etree.tostring(tmp[0]) + b'</e:Body></e:Envelope>')
    else:
        rp = RemoteProcedureBase('http://x/', app, 'op')
        cctx = rp.contexts[0]
        rp.get_out_object(cctx, (in_value,), {})
        rp.get_out_string(cctx)
        req = b''.join(cctx.out_string)
    req_entry = etree.fromstring(req).find('{%s}Body' % env)[0]
    server = ServerBase(app)
    sctx = MethodContext(server, MethodContext.SERVER)
    sctx.in_string = [req]
    sctx, = server.generate_contexts(sctx)
    server.get_in_object(sctx)
    if sctx.in_error is not None:
        return False
    server.get_out_object(sctx)
    server.get_out_string(sctx)
    resp_entry = etree.fromstring(b''.join(sctx.out_string)).find('{%s}Body' % env)[0]
    ok_req = xs.validation_schema.validate(etree.fromstring(etree.tostring(req_entry)))
    ok_resp = xs.validation_schema.validate(etree.fromstring(etree.tostring(resp_entry)))
    sx.observe('request valid', bool(ok_req))
    sx.observe('response valid', bool(ok_resp))
    return bool(ok_req) and bool(ok_resp)


# ---------------------------------------------------------------- XML attributes: published use="required" vs what is written
from spyne.model.complex import XmlAttribute


class AttrHolder(ComplexModel):
    __namespace__ = TNS
    _type_info = [('off', XmlAttribute(Integer, use='required')), ('flag', XmlAttribute(Boolean, use='required')),
                  ('name', XmlAttribute(Unicode, use='required')), ('opt', XmlAttribute(Integer)), ('body', Unicode)]


class ASvc(Service):
    @rpc(AttrHolder, _returns=AttrHolder)
    def g(ctx, at):
        return at


AAPP = Application([ASvc], TNS, in_protocol=XmlDocument(validator='soft'), out_protocol=XmlDocument())
ACTX = fake_ctx(AAPP)
AOUT = XmlDocument(app=AAPP)
_AXS = {}


class _StubParent(object):
    def __init__(self):
        self.attrib = {}

    def set(self, k, v):
        self.attrib[k] = v


def _attr_decls():
    """{attribute name: use} as published for AttrHolder by the real schema emitter"""
    if not _AXS:
        xs = XmlSchema(AAPP.interface)
        xs.build_validation_schema()
        root = xs.schema_dict[AAPP.interface.get_namespace_prefix(TNS)]
        ct = [c for c in root.findall(q('complexType')) if c.get('name') == 'AttrHolder'][0]
        _AXS['use'] = dict((a.get('name'), a.get('use')) for a in ct.iter(q('attribute')))
        _AXS['compiled'] = xs.validation_schema
    return _AXS['use'], _AXS['compiled']


@harness('C06', functions=['spyne.protocol.xml.XmlDocument.xmlattribute_to_parent',
                           'spyne.interface.xml_schema.model.complex_add', 'spyne.protocol._outbase.OutProtocolBase.to_unicode'],
         bounds={'value': 'an object with three required attributes (integer |v| <= 10^6, boolean, string of 0..2 characters) and '
                          'one optional integer attribute (given or None); every value symbolic, so the falsy ones 0 / False / "" '
                          'are inside'})
def emitted_attributes_valid(sx, p):
    """every attribute published with use="required" is written whenever the object has a value for it, as a literal
    that reads back as that value (native replay: the whole element validates against the compiled schema)"""
    use, compiled = _attr_decls()
    off, flag = sx.int('off', -10 ** 6, 10 ** 6), sx.bool('flag')
    n = sx.choose('nlen', [0, 1, 2])
    name = sx.text('name', n, alphabet='ab ') if n else u''
    opt = sx.int('opt', -9, 9) if sx.choose('has_opt', [1, 0]) else None
    vals = {'off': off, 'flag': flag, 'name': name, 'opt': opt}
    if not sx.symbolic:
        from lxml import etree
        parent = etree.Element('{%s}g' % TNS, nsmap={None: TNS})
        AOUT.to_parent(ACTX, AttrHolder, AttrHolder(body=u'x', **vals), parent, TNS, 'at')
        doc = etree.fromstring(etree.tostring(parent))
        if not compiled.validate(doc):
            return False
        back = SOFT.from_element(ACTX, AttrHolder, doc[0])
        return back.off == off and back.flag == flag and (back.name or u'') == name and back.opt == opt
    ok = []
    for k, v in vals.items():
        T = AttrHolder._type_info[k]
        par = _StubParent()
        AOUT.xmlattribute_to_parent(ACTX, T, v, par, TNS, k)
        if v is None:
            ok.append(par.attrib == {})
            continue
        if len(par.attrib) != 1:
            if use.get(k) == 'required':
                return False
            ok.append(False)        # an optional attribute that has a value is written too
            continue
        text = list(par.attrib.values())[0]
        ok.append(sx.eq(SOFT.from_unicode(T.type, text), v))
    return sx.And(*ok)


# ---------------------------------------------------------------- facets of attribute types: schema vs soft validation
class FacetAttrs(ComplexModel):
    __namespace__ = TNS
    _type_info = [('rank', XmlAttribute(Integer(ge=1, le=10))), ('zone', XmlAttribute(Unicode(pattern='[A-C]{2}'))),
                  ('size', XmlAttribute(Unicode(values=['S', 'M', 'XL']))), ('code', XmlAttribute(Unicode(min_len=2, max_len=3))),
                  ('body', Unicode)]


class FSvc(Service):
    @rpc(FacetAttrs, _returns=Integer)
    def g2(ctx, fa):
        return 1


FAPP = Application([FSvc], TNS, in_protocol=XmlDocument(validator='soft'), out_protocol=XmlDocument())
FCTX = fake_ctx(FAPP)
FSOFT = XmlDocument(app=FAPP, validator='soft')
_FXS = {}


def _fschema():
    if not _FXS:
        xs = XmlSchema(FAPP.interface)
        xs.build_validation_schema()
        _FXS['root'] = xs.schema_dict[FAPP.interface.get_namespace_prefix(TNS)]
        _FXS['all'] = list(xs.schema_dict.values())
        _FXS['compiled'] = xs.validation_schema
    return _FXS['root'], _FXS['compiled']


def attr_decl(type_name, attr):
    """advertised type of an attribute: dict(base=..., facets={...}) read from the generated schema"""
    root, _ = _fschema()
    ct = [c for c in root.findall(q('complexType')) if c.get('name') == type_name][0]
    a = [x for x in ct.iter(q('attribute')) if x.get('name') == attr][0]
    t = a.get('type')
    out, facets, enum = {}, {}, []
    while True:
        pfx, name = t.split(':') if ':' in t else (None, t)
        if a.nsmap.get(pfx) == XSD:
            out['base'] = name
            break
        # (the anonymous types of attribute members are published in schema documents of their own)
        st = [s for doc in _FXS['all'] for s in doc.findall(q('simpleType')) if s.get('name') == name][0]
        r = st.find(q('restriction'))
        for f in r:
            k = f.tag.split('}')[1]
            if k == 'enumeration':
                enum.append(f.get('value'))
            else:
                facets.setdefault(k, f.get('value'))
        t = r.get('base')
        a = r
    if enum:
        facets['enumeration'] = enum
    out['facets'] = facets
    return out


@harness('C06', params=['rank', 'zone', 'size', 'code'], functions=FUNCS + ['spyne.interface.xml_schema.model.xml_attribute_add'],
         bounds={'text': 'attribute values of 1..3 characters (integers: over 0-9 and -; strings: over A B C S M X L 1) for attributes '
                         'typed with a range, a pattern, an enumeration and a length restriction'})
def schema_vs_soft_attributes(sx, name):
    """the facets published for an attribute's type are what soft validation enforces on the attribute value"""
    decl = attr_decl('FacetAttrs', name)
    L = sx.choose('len', [1, 2, 3])
    text = sx.text('t', L, alphabet='0123456789-' if name == 'rank' else 'ABCSMXL1')
    el = mk_element(sx, '{tns}fa', attrib={name: text}, children=[mk_element(sx, '{tns}body', text='b')])
    out = run_soft(lambda: FSOFT.from_element(FCTX, FacetAttrs, el))
    sx.observe('soft', out.accepted)
    if sx.symbolic:
        x = xsd_accepts_text(sx, decl, text)
        return sx.Or(sx.And(x, out.accepted), sx.And(sx.Not(x), not out.accepted))
    from lxml import etree
    _, compiled = _fschema()
    g = etree.Element('{%s}g2' % TNS, nsmap={None: TNS})
    fa = etree.SubElement(g, '{%s}fa' % TNS)
    fa.set(name, text)
    etree.SubElement(fa, '{%s}body' % TNS).text = 'b'
    return compiled.validate(g) == out.accepted

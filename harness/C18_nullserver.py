"""C18 — calling a method through NullServer behaves like calling it over the wire (differential:
NullServer vs the JsonDocument wire path; XmlDocument / Soap11 on the path witnesses)."""
from symx.api import harness

from spyne import Application, Service, rpc, ComplexModel
from spyne.model.primitive import Integer, Unicode, Boolean
from spyne.model.complex import Iterable, Array
from spyne.model.fault import Fault
from spyne.model._base import Ignored
from spyne.protocol.json import JsonDocument
from spyne.protocol.xml import XmlDocument
from spyne.protocol.soap import Soap11
from spyne.server.null import NullServer
from spyne.server import ServerBase
from spyne.context import MethodContext

CAP = {}


class Point(ComplexModel):
    __namespace__ = 'tns'
    x = Integer
    y = Integer
    label = Unicode


class Point3(Point):         # x, y, label are inherited: field-wise invocation passes the parent's fields first
    __namespace__ = 'tns'
    z = Integer


class Svc(Service):
    @rpc(Integer, Unicode, Boolean, _returns=Unicode)
    def show(ctx, i, s, b):
        CAP['args'] = (i, s, b)
        return s

    @rpc(Integer, Integer, _returns=Integer)
    def first(ctx, a, b):
        CAP['args'] = (a, b)
        return a

    @rpc(Integer, _returns=[Integer, Unicode])
    def two(ctx, a):
        CAP['args'] = (a,)
        if CAP.get('ignored'):
            return Ignored('debug', a)
        return a, u'second'

    @rpc(Integer)
    def nothing(ctx, a):
        CAP['args'] = (a,)

    @rpc(_returns=Integer)
    def noargs(ctx):
        CAP['args'] = ()
        return 7

    @rpc(Integer, _returns=Integer, _body_style='out_bare')
    def outbare(ctx, a):
        CAP['args'] = (a,)
        return a

    @rpc(Point, _returns=Integer, _body_style='bare')
    def bare(ctx, p):
        CAP['args'] = (p,)
        return p.x if p is not None else None

    @rpc(Point3, _returns=Integer, _body_style='bare')
    def bare3(ctx, p):
        CAP['args'] = (p,)
        return p.z if p is not None else None

    @rpc(_returns=Point, _body_style='bare')
    def status(ctx):
        CAP['args'] = ()
        return Point(x=1, y=2, label=u'ok')

    @rpc(_returns=Unicode, _body_style='out_bare')
    def motd(ctx):
        CAP['args'] = ()
        return u'hello'

    @rpc(Integer, _returns=Iterable(Integer))
    def gen(ctx, a):
        CAP['args'] = (a,)
        yield a
        yield 2

    @rpc(Integer, Unicode, _returns=Integer)
    def boom(ctx, a, msg):
        CAP['args'] = (a, msg)
        raise Fault('Client.Custom', msg)

    @rpc(Integer, _returns=Integer)
    def ign(ctx, a):
        CAP['args'] = (a,)
        return Ignored('debug', a)

    @rpc(Integer, _returns=Integer, _body_style='out_bare')
    def ign_outbare(ctx, a):
        CAP['args'] = (a,)
        return Ignored('debug', a)

    @rpc(Integer(default=5), Integer, _returns=Integer)
    def dflt(ctx, a, b):
        # an argument with a declared default: what is not sent is the default
        CAP['args'] = (a, b)
        return a

    @rpc(_body_style='bare')
    def ign_empty(ctx):
        # the empty body style: nothing comes in, nothing is declared to go out
        CAP['args'] = ()
        return Ignored('debug', 7)

    @rpc(Integer, Unicode, _returns=Integer)
    def echo(ctx, echo, s):
        # an argument that is called like the method
        CAP['args'] = (echo, s)
        return echo

    @rpc(Integer, _returns=[Point, Point])
    def same2(ctx, a):
        CAP['args'] = (a,)
        p = Point(x=a, y=a, label=u'p')
        return p, p                      # the same object in both positions

    @rpc(Integer, _returns=Array(Point))
    def arr2(ctx, a):
        CAP['args'] = (a,)
        return [Point(x=a, y=1, label=u'q')] * 2

    @rpc(Integer, Integer, _returns=Integer)
    def div(ctx, a, b):
        CAP['args'] = (a, b)
        if b == 0:
            raise Fault('Client.DivisionByZero', u'b is zero')
        return a * 10 + b


APP = Application([Svc], 'tns', in_protocol=JsonDocument(), out_protocol=JsonDocument())
NULL = NullServer(APP)
WIRE = ServerBase(APP)
XAPP = {'XmlDocument': Application([Svc], 'tns', in_protocol=XmlDocument(), out_protocol=XmlDocument()),
        'Soap11': Application([Svc], 'tns', in_protocol=Soap11(), out_protocol=Soap11())}


def wire_call(sx, name, body):
    """the JsonDocument wire path: request document {name: body} -> (args seen by the function, response
    document | fault)"""
    prot = APP.in_protocol
    ctx = MethodContext(WIRE, MethodContext.SERVER)
    if sx.symbolic:
        ctx.in_document = {name: body}
    else:
        import json
        ctx.in_string = [json.dumps({name: body}).encode('utf8')]
        prot.create_in_document(ctx)
    prot.decompose_incoming_envelope(ctx, prot.REQUEST)
    ctx, = prot.generate_method_contexts(ctx)
    prot.deserialize(ctx, prot.REQUEST)
    CAP.pop('args', None)
    WIRE.get_out_object(ctx)
    if ctx.out_error is not None:
        return CAP.get('args'), ('fault', ctx.out_error.faultcode, ctx.out_error.faultstring)
    APP.out_protocol.serialize(ctx, prot.RESPONSE)
    doc = ctx.out_document
    if not sx.symbolic:
        import json
        APP.out_protocol.create_out_string(ctx)
        doc = (json.loads(b''.join(ctx.out_string).decode('utf8')),)
    return CAP.get('args'), ('ok', doc[0] if doc else None)


def null_call(name, *a, **k):
    CAP.pop('args', None)
    try:
        r = getattr(NULL.service, name)(*a, **k)
        import types
        if isinstance(r, types.GeneratorType):
            r = list(r)
        return CAP.get('args'), ('ok', r)
    except Fault as e:
        return CAP.get('args'), ('fault', e.faultcode, e.faultstring)


def _same_args(sx, x, y):
    if x is None or y is None or len(x) != len(y):
        return False
    return sx.And(*[sx.eq(p, q) if not isinstance(p, Point) else _same_point(sx, p, q) for p, q in zip(x, y)])


def _same_point(sx, p, q):
    if not isinstance(q, Point):
        return False
    return sx.And(sx.eq(p.x, q.x), sx.eq(p.y, q.y), sx.eq(p.label, q.label), type(p) is type(q),
                  sx.eq(getattr(p, 'z', None), getattr(q, 'z', None)))


FUNCS = ['spyne.server.null._FunctionCall.__call__', 'spyne.server.null._cb_sync',
         'spyne.application.Application.process_request', 'spyne.server._base.ServerBase.get_out_object',
         'spyne.protocol.dictdoc.hier.HierDictDocument.serialize', 'spyne.protocol.dictdoc.hier.HierDictDocument.deserialize']
METHODS = ['show', 'first', 'two', 'two-ignored', 'nothing', 'noargs', 'outbare', 'bare', 'gen', 'boom', 'ign', 'ign_outbare', 'div', 'same2', 'arr2',
           'ign_empty', 'echo', 'bare3', 'dflt']


@harness('C18', params=METHODS, functions=FUNCS,
         bounds={'arguments': 'integers -3..3 (so falsy 0 is inside), strings of 0..2 chars, booleans; each argument '
                              'given or omitted; positional and keyword invocation',
                 'signatures': 'wrapped (0..3 args, none/one/two return values), out_bare, bare with a complex argument '
                               'passed field-wise, generator, raised Fault, Ignored return'})
def null_vs_wire(sx, m):
    """NullServer delivers the same arguments and returns (or raises) the same result as the wire; keyword and
    positional invocation are equivalent; Ignored is delivered directly but sent as empty"""
    CAP.clear()
    R = 3 if sx.tier == 'quick' else 12
    a = sx.int('a', -R, R)
    b = sx.int('b', -R, R)
    n = sx.choose('slen', [0, 1, 2] if sx.tier == 'quick' else [0, 1, 2, 3])
    s = sx.text('s', n, alphabet='ab') if n else u''
    flag = sx.bool('flag')
    style = sx.choose('style', ['positional', 'keyword'])
    if m == 'show':
        pos, kw, body = (a, s, flag), dict(i=a, s=s, b=flag), {'i': a, 's': s, 'b': flag}
    elif m in ('first', 'div'):
        pos, kw, body = (a, b), dict(a=a, b=b), {'a': a, 'b': b}
    elif m in ('two', 'two-ignored', 'nothing', 'outbare', 'gen', 'ign', 'ign_outbare', 'same2', 'arr2'):
        pos, kw, body = (a,), dict(a=a), {'a': a}
    elif m in ('noargs', 'ign_empty'):
        pos, kw, body = (), {}, {}
    elif m == 'echo':
        pos, kw, body = (a, s), dict(echo=a, s=s), {'echo': a, 's': s}
    elif m == 'bare':
        pos, kw, body = (a, b, s), dict(x=a, y=b, label=s), {'x': a, 'y': b, 'label': s}
    elif m == 'dflt':
        # the first argument is left out (positional: passed as None), the second is given
        pos, kw, body = (None, b), dict(b=b), {'b': b}
    elif m == 'bare3':
        pos, kw, body = (a, b, s, b), dict(x=a, y=b, label=s, z=b), {'x': a, 'y': b, 'label': s, 'z': b}
    else:
        pos, kw, body = (a, s), dict(a=a, msg=s), {'a': a, 'msg': s}
    name = 'two' if m == 'two-ignored' else m
    CAP['ignored'] = (m == 'two-ignored')
    nargs, nres = null_call(name, *pos) if style == 'positional' else null_call(name, **kw)
    CAP['ignored'] = (m == 'two-ignored')
    wargs, wres = wire_call(sx, name, body)
    ok = [_same_args(sx, nargs, wargs), nres[0] == wres[0]]
    if nres[0] == 'fault':
        ok += [sx.eq(nres[1], wres[1]), sx.eq(nres[2], wres[2])]
        return sx.And(*ok)
    direct, doc = nres[1], wres[1]
    if m in ('ign', 'two-ignored', 'ign_outbare', 'ign_empty'):
        # delivered to the direct caller, sent as empty over the wire
        ok.append(isinstance(direct, Ignored) and sx.eq(direct.args[1], 7 if m == 'ign_empty' else a))
        ok.append(doc is None or doc == {} or doc == [] or
                  (isinstance(doc, dict) and all(v is None for v in doc.values())))
    elif m == 'nothing':
        ok += [direct is None, doc is None or doc == {} or doc == []]
    elif m == 'two':
        ok.append(isinstance(direct, (list, tuple)) and len(direct) == 2 and isinstance(doc, dict))
        if isinstance(direct, (list, tuple)) and len(direct) == 2 and isinstance(doc, dict):
            ok += [sx.eq(direct[0], doc.get('twoResult0')), sx.eq(direct[1], doc.get('twoResult1')),
                   sx.eq(direct[0], a)]
    elif m in ('same2', 'arr2'):
        # a result that references one object twice is delivered twice, directly and on the wire
        pts = list(direct) if isinstance(direct, (list, tuple)) else None
        docs = [doc.get('same2Result0'), doc.get('same2Result1')] if (m == 'same2' and isinstance(doc, dict)) else doc
        if pts is None or len(pts) != 2 or not isinstance(docs, list) or len(docs) != 2:
            return False
        for pt, d in zip(pts, docs):
            if not isinstance(pt, Point) or not isinstance(d, dict):
                return False
            ok += [sx.eq(pt.x, d.get('x')), sx.eq(pt.y, d.get('y')), sx.eq(pt.label, d.get('label')), sx.eq(pt.x, a)]
    elif m == 'gen':
        ok.append(isinstance(doc, list) and len(doc) == len(direct))
        if isinstance(doc, list) and len(doc) == len(direct):
            ok += [sx.eq(x, y) for x, y in zip(direct, doc)]
    else:
        ok.append(sx.eq(direct, doc))
    if m == 'dflt':
        ok.append(nargs is not None and len(nargs) == 2 and nargs[0] == 5 and sx.eq(nargs[1], b))
    if m == 'bare3':
        ok.append(nargs is not None and len(nargs) == 1 and isinstance(nargs[0], Point3) and sx.eq(nargs[0].z, b) and sx.eq(nargs[0].x, a))
    return sx.And(*ok)


@harness('C18', params=['ign', 'two'], functions=FUNCS[:3],
         bounds={'arguments': 'integer -3..3, positional or keyword'})
def null_ignored_direct(sx, m):
    """an Ignored return is delivered to the direct caller as it is, for one and for several declared return
    values (independently of what the wire does with it)"""
    CAP.clear()
    a = sx.int('a', -3, 3)
    CAP['ignored'] = True
    style = sx.choose('style', ['positional', 'keyword'])
    nargs, nres = null_call(m, a) if style == 'positional' else null_call(m, a=a)
    if nres[0] != 'ok' or not isinstance(nres[1], Ignored):
        return False
    return sx.And(sx.eq(nres[1].args[1], a), nargs is not None and len(nargs) == 1 and sx.eq(nargs[0], a))


@harness('C18', params=['bare', 'status', 'motd'], functions=FUNCS[:3] + ['spyne.descriptor.MethodDescriptor.is_out_bare'],
         bounds={'arguments': 'integers -3..3, strings of 0..2 chars; positional, keyword and mixed invocation'})
def null_bare_styles(sx, m):
    """NullServer alone, for the bare family: a complex argument passed field-wise arrives with every field whether the
    fields are given positionally, by keyword or mixed; zero-argument bare / out_bare methods return the object itself"""
    CAP.clear()
    if m == 'status':
        nargs, nres = null_call('status')
        r = nres[1] if nres[0] == 'ok' else None
        return isinstance(r, Point) and r.x == 1 and r.y == 2 and r.label == u'ok'
    if m == 'motd':
        nargs, nres = null_call('motd')
        return nres == ('ok', u'hello')
    a, b = sx.int('a', -3, 3), sx.int('b', -3, 3)
    n = sx.choose('slen', [0, 1, 2])
    s = sx.text('s', n, alphabet='ab') if n else u''
    style = sx.choose('style', ['positional', 'keyword', 'mixed'])
    if style == 'positional':
        nargs, nres = null_call('bare', a, b, s)
    elif style == 'keyword':
        nargs, nres = null_call('bare', x=a, y=b, label=s)
    else:
        nargs, nres = null_call('bare', a, label=s, y=b)
    if nres[0] != 'ok' or not nargs or not isinstance(nargs[0], Point):
        return False
    p = nargs[0]
    want_label = s if (style == 'positional' or n) else None      # a falsy keyword value is "not given"
    return sx.And(sx.eq(p.x, a), sx.eq(p.y, b), sx.eq(p.label, s) if n or style == 'positional' else (p.label in (None, u'')),
                  sx.eq(nres[1], a))


@harness('C18', params=['div', 'boom-then-first'], functions=FUNCS[:3],
         bounds={'history': 'two (thorough: three) consecutive calls on one NullServer (and the same two requests on the wire): arguments '
                            'integers -3..3, so the first call may raise a Fault and the second succeed, or the reverse; '
                            'positional or keyword invocation per call'})
def null_call_sequences(sx, m):
    """every call on a NullServer stands on its own: what an earlier call returned or raised does not show in a later one,
    exactly as on the wire"""
    CAP.clear()
    ok = []
    for step in range(3 if sx.tier == 'thorough' else 2):
        a = sx.int('a%d' % step, -3, 3)
        b = sx.int('b%d' % step, -3, 3)
        style = sx.choose('style%d' % step, ['positional', 'keyword'])
        if m == 'div' or step >= 1:
            name = 'div' if m == 'div' else 'first'
            nargs, nres = null_call(name, a, b) if style == 'positional' else null_call(name, a=a, b=b)
            wargs, wres = wire_call(sx, name, {'a': a, 'b': b})
        else:
            s = sx.text('msg', 1, alphabet='ab')
            nargs, nres = null_call('boom', a, s) if style == 'positional' else null_call('boom', a=a, msg=s)
            wargs, wres = wire_call(sx, 'boom', {'a': a, 'msg': s})
        ok += [_same_args(sx, nargs, wargs), nres[0] == wres[0]]
        if nres[0] != wres[0]:
            return False
        if nres[0] == 'fault':
            ok += [sx.eq(nres[1], wres[1]), sx.eq(nres[2], wres[2])]
        else:
            ok.append(sx.eq(nres[1], wres[1]))
    return sx.And(*ok)


# ---------------------------------------------------------------- through the WSGI transport: several return values, one of them lazy
class LazySvc2(Service):
    @rpc(Integer, _returns=(Iterable(Integer), Integer))
    def gen_first(ctx, n):
        return (i for i in range(n)), n

    @rpc(Integer, _returns=(Integer, Iterable(Integer)))
    def gen_second(ctx, n):
        return n, (i for i in range(n))

    @rpc(Integer, _returns=(Integer, Integer))
    def plain(ctx, n):
        return n, n + 1


WAPPS = {}


@harness('C18', params=[(pr, m) for pr in ('json', 'xml', 'soap11') for m in ('gen_first', 'gen_second', 'plain')], label=lambda p: '%s %s' % p,
         functions=['spyne.server.wsgi.WsgiApplication.handle_rpc', 'spyne.server.null._FunctionCall.__call__'],
         bounds={'call': 'methods with two return values of which the first, the second or none is a generator of n = 0..3 items; '
                         'NullServer against the same call through WsgiApplication (chunked or not) in three protocols'})
def null_vs_wsgi_multi_return(sx, p):
    """a call with several return values gives the same values through NullServer and through the WSGI transport, also
    when one of them is produced lazily"""
    import io, json, types
    from lxml import etree
    from spyne.server.wsgi import WsgiApplication
    proto, m = p
    n = sx.choose('n', [2, 0, 1, 3])
    chunked = sx.choose('chunked', [True, False])
    if proto not in WAPPS:
        Pc = {'json': JsonDocument, 'xml': XmlDocument, 'soap11': Soap11}[proto]
        app = Application([LazySvc2], 'tns', in_protocol=Pc(), out_protocol=Pc())
        WAPPS[proto] = (app, NullServer(app))
    app, null = WAPPS[proto]
    direct = getattr(null.service, m)(n)
    direct = [list(x) if isinstance(x, types.GeneratorType) else x for x in direct]
    body, ctype = {'json': (('{"%s": {"n": %d}}' % (m, n)).encode(), 'application/json'),
                   'xml': (('<%s xmlns="tns"><n>%d</n></%s>' % (m, n, m)).encode(), 'text/xml'),
                   'soap11': (('<s:Envelope xmlns:s="http://schemas.xmlsoap.org/soap/envelope/"><s:Body><%s xmlns="tns"><n>%d</n></%s></s:Body>'
                               '</s:Envelope>' % (m, n, m)).encode(), 'text/xml')}[proto]
    environ = {'REQUEST_METHOD': 'POST', 'PATH_INFO': '/', 'QUERY_STRING': '', 'SERVER_NAME': 'localhost', 'SERVER_PORT': '80',
               'wsgi.url_scheme': 'http', 'wsgi.input': io.BytesIO(body), 'CONTENT_LENGTH': str(len(body)), 'CONTENT_TYPE': ctype}
    status = []
    out = b''.join(WsgiApplication(app, chunked=chunked)(environ, lambda s, h, e=None: status.append(s)))
    sx.observe('status', status)
    if not status[0].startswith('200'):
        return False
    if proto == 'json':
        d = json.loads(out.decode('utf8'))
        wire = [d.get('%sResult0' % m), d.get('%sResult1' % m)]
        wire = [[] if (isinstance(w, list) is False and w is None and isinstance(dv, list)) else w for w, dv in zip(wire, direct)]
    else:
        root = etree.fromstring(out)
        wire = []
        for k, dv in enumerate(direct):
            els = [e for e in root.iter() if isinstance(e.tag, str) and etree.QName(e).localname == '%sResult%d' % (m, k)]
            if len(els) != 1:
                return False
            wire.append([int(c.text) for c in els[0]] if isinstance(dv, list) else (None if els[0].text is None else int(els[0].text)))
    sx.observe('direct', direct)
    sx.observe('wire', wire)
    return wire == direct

#!/usr/bin/env python3
"""Regenerates MANIFEST.json from the table below (kept in one place so it stays valid)."""
import json, os
HERE = os.path.dirname(os.path.abspath(__file__))

CHECKS = {
 'C08': dict(
    cat='model_checking', ref='DESIGN.md section 4 (C08)',
    text='Bounded symbolic execution of the real text codecs (to_unicode/from_unicode handlers) with the native '
         'value, resp. the characters of the literal, as solver variables; z3 proves round trip, written lexical '
         'space and read-side value for every value/literal inside the stated bounds, or returns a witness that is '
         'replayed on un-instrumented /repo.',
    note='Bounds and stubs are listed in evidence (bounds, outside_claim). Trusted: z3, the symx proxies and stdlib '
         'models (datetime, Decimal.__str__, float rounding), validated on every explored path against the real code. '
         'Outside: Double, ByteArray codecs, Uuid, locale/strftime formats, serialize_as=sec.. variants.'),
 'C05': dict(
    cat='model_checking', ref='DESIGN.md section 4 (C05)',
    text='The real soft-validation code of the XML text path (from_element on an element stub), the dict-document native '
         'path (_from_dict_value/_doc_to_object) and the HttpRpc flat path (_to_native_values) is executed with the '
         'text/number/occurrence count as solver variables; accepted(value) == reference-facet-semantics(value) is proved '
         'for every value inside the bounds for a grid of constraint combinations, and a rejected value must raise a '
         'Client fault. Agreement between protocol families follows from the shared oracle.',
    note='Facet grid (fixed list of customised types) and text alphabets are bounds listed in evidence. The reference '
         'semantics of facets is transcribed from XML Schema Part 2. lxml parsing itself is outside (the stub carries the '
         'text; the native replay uses real lxml elements).'),
 'C03': dict(
    cat='model_checking', ref='DESIGN.md section 4 (C03)',
    text='_s2cmi is checked as one inductive step from an arbitrary valid map (n entries, arbitrary sparse keys, arbitrary '
         'new index). The real simple_dict_to_object runs on flat documents whose bracket indexes and values are symbolic '
         'digits (sparse, two-digit vs one-digit, nested arrays), so every key order / index assignment inside the bound is '
         'covered by the solver; flat round trip and primitive return bytes with symbolic leaves.',
    note='Universes (class shapes) are a fixed small list; n <= 3 array elements, 1-2 digit indexes. Percent-decoding and form '
         'parsing (urllib/werkzeug) are outside the claim.'),
 'C09': dict(
    cat='model_checking', ref='DESIGN.md section 4 (C09)',
    text='fault_to_http_response_code for 16 fault classes x 6 protocols with a symbolic fault code; the exception funnel '
         '(process_request/get_out_object/serialize of the dict-document family) with symbolic code/message/detail/secret; '
         'Soap12.gen_fault_codes with symbolic dotted codes. z3 proves the status table, field preservation and '
         'absence of the secret for all strings inside the bound.',
    note='XML/SOAP fault *elements* are built by lxml and are outside the solver part (covered concretely by the pipeline harness '
         'of C14 where present). Code strings <= 9 chars, messages 4 chars, secrets 6 chars.'),
 'C13': dict(
    cat='model_checking', ref='DESIGN.md section 4 (C13)',
    text='The bounded body reader runs with symbolic max_content_length, block_length, CONTENT_LENGTH (absent/empty/any '
         'integer text) and a PEP-3333 stream stub returning any 0 <= r <= n bytes per read; z3 proves the read budget, '
         'non-negative request sizes, refusal before the first read and no spurious refusal, for streams of <= 3 chunks.',
    note='Unwinding bound: at most 3 non-empty chunks per request. The response-side part of the property (start_response '
         'protocol, context close) is exercised by the pipeline harness.'),
 'C04': dict(
    cat='model_checking', ref='DESIGN.md section 4 (C04)',
    text='from_element runs on a stub element whose xsi:type attribute is a symbolic string (every string of the lengths of '
         'all resolvable type names), _doc_to_object runs with a symbolic wrapper key and with every JSON value kind in every '
         'slot; z3 decides whether any value of an inadmissible type can be delivered.',
    note='Universe: Base/Sub/SubSub/Other/Holder, XmlDocument (None, soft), Soap11 soft, JsonDocument soft. Non-fault exceptions are '
         'judged under C10, not here. Also: binary scalars (YAML !!binary / msgpack bin) in text, number, date and boolean slots; SOAP header slots.'),
 'C10': dict(
    cat='model_checking', ref='DESIGN.md section 4 (C10)',
    text='Leaf parsers of every primitive run on symbolic adversarial text (free-form strings and date/time shapes with symbolic '
         'digits) through the XML, dict-document and HttpRpc entry points; every JSON kind in every slot; wrong nesting; symbolic '
         'xsi:type text. The solver explores all paths; any path ending in a non-Fault exception or a non-Client fault is a '
         'counterexample. Concrete malformed documents per protocol (15 generic request kinds, about 100 protocol-specific hostile documents (XML, SOAP 1.1, SOAP 1.2, JSON, YAML, MessagePack, and XML requests answered through HttpRpc / JSON), prefix truncations, auxiliary-method requests) go through the real parsers and the WSGI transport.',
    note='The byte-level parsers (lxml, json, yaml, msgpack) are C code: random bytes / all prefix truncations are outside the solver '
         'part; the concrete malformed documents are enumeration, labelled as such. Text length <= 6 (plus length-guard boundaries).'),
 'C14': dict(
    cat='fault_enumeration', ref='DESIGN.md section 4 (C14)',
    text='The real pipeline (ServerBase and WsgiApplication; Json, Xml, Soap11, HttpRpc) runs under a fault schedule chosen by the '
         'engine (request kind x failing stage x Fault/non-Fault x listener level); listeners at every level record the trace, '
         'which must be accepted by the specification automaton written from the property text. Exhaustive over the single-failure '
         'schedules listed in evidence.',
    note='All data is concrete here (the wire parsers are C); what is explored exhaustively is the schedule space. Relative order of '
         'service-level vs method-level managers is not asserted (the property does not fix it).',
    technique='exhaustive fault-schedule exploration of the real pipeline driven by the symx engine (schedule variables as engine choices), trace checked against a specification automaton'),
 'C02': dict(
    cat='model_checking', ref='DESIGN.md section 4 (C02)',
    text='A reference codec written from the documented conventions builds request documents with symbolic, pairwise independent '
         'leaves and hands them to the real decompose_incoming_envelope + deserialize; the real serialize output is decoded by '
         'the same conventions. z3 proves position-by-position equality for every leaf value inside the bounds for '
         '{Json, Yaml, MessagePack(str/bin method key)} x ignore_wrappers x complex_as x validator. Witnesses additionally '
         'travel through json / PyYAML / msgpack.',
    note='One fixed universe of classes (nested object, arrays, six primitive kinds), fully populated objects, arrays <= 2. The C '
         'encoders, YAML scalar resolution of strings like "yes" and surrogates are outside the symbolic part (they are exercised '
         'on every path witness). MessagePackRpc envelope and polymorphic=True are not covered here (see C16).'),
 'C15': dict(
    cat='model_checking', ref='DESIGN.md section 4 (C15)',
    text='Histories of derivation/evolution operations over a fresh pool of seven models: every pair of operation kinds (quick) '
         'and kind-triples (one in quick, twelve in thorough) with every target/keyword-set choice explored by the engine and the '
         'numeric arguments symbolic; after each step z3 compares a structural snapshot (public attributes incl. symbolic ones, '
         'ordered fields by identity, flat field order, validation verdict on a symbolic probe) of every other model with its '
         'previous snapshot, and checks that derived models / late fields carry exactly the requested constraints.',
    note='Hash-seed independence of field order is a process-level quantifier and is not claimed. Snapshots compare public '
         'Attributes, never private bookkeeping.'),
 'C16': dict(
    cat='model_checking', ref='DESIGN.md section 4 (C16)',
    text='Dict-document family: _object_to_doc -> wire model -> _doc_to_object for a depth-3 class tree with the runtime class '
         'chosen per declared slot (plain, customized variant, Array) and symbolic field values, polymorphic on and off, '
         'JSON/YAML/MessagePack. XML family: the type marker computed by get_type_name_ns is resolved against the interface prefix '
         'table and a stub element carrying it is deserialised by the real from_element (symbolic texts); '
         'Interface.get_namespace_prefix is checked as one inductive step from an arbitrary bijective prefix table. Emitted XML '
         'documents are checked concretely (lxml) for xsi:type resolution and field order.',
    note='Element construction by lxml is concrete (one document per schedule). Subclasses in another namespace than their base '
         'are outside (not registered for substitution by the interface).'),
 'C18': dict(
    cat='model_checking', ref='DESIGN.md section 4 (C18)',
    text='Differential harness: the real _FunctionCall.__call__/_cb_sync path and the real JsonDocument wire path '
         '(deserialize -> process_request -> serialize) run on the same symbolic arguments for thirteen signatures and for two-call histories on one NullServer (wrapped 0..3 '
         'args, none/one/two returns, out_bare, bare with a complex argument, generator, raised Fault, Ignored), positional and '
         'keyword invocation; z3 proves equal delivered arguments and equal results.',
    note='Wire side is JsonDocument in the symbolic part; XmlDocument/Soap11 need lxml and are not compared. Argument values: '
         'integers -3..3, strings <= 2 chars, booleans.'),
 'C11': dict(
    cat='model_checking', ref='DESIGN.md section 4 (C11)',
    text='The requested method name is a symbolic string (every string of the relevant lengths over the letters of the registered '
         'names; for XML also a symbolic namespace) fed to the real decompose_incoming_envelope / generate_method_contexts / '
         'get_call_handles of JsonDocument, XmlDocument, Soap11, MessagePackRpc and HttpRpc-over-WSGI; z3 proves that the handles '
         'are exactly those registered under that exact qualified name and ResourceNotFoundError otherwise.',
    note='One application with adversarially similar names (both service orders). HttpPattern routing is checked against a route table written in the harness (symbolic path); rejection of colliding names at construction is checked on three concrete universes (enumeration).'),
 'C17': dict(
    cat='other', ref='DESIGN.md section 4 (C17)',
    text='Option flow only: with all twelve parser options symbolic, z3 proves that XmlDocument/Soap11/Soap12.create_in_document '
         'build one parser per request with exactly the constructor values (no cross-wiring) and hand that parser the request '
         'bytes; the constructor defaults read from the live signature equal the safe set. What libxml2 does with the options '
         '(entity expansion, DTD loading, time/memory bounds) is C code and is NOT modelled; concrete canary documents (entities internal/chained/external/from an external DTD, nesting and expansion bombs, with and without transport charset / encoding declaration, plain and multipart/SwA parse paths) run on the real library and are labelled as concrete.',
    note='Trusted base: lxml/libxml2 honouring resolve_entities=False, load_dtd=False, no_network=True, huge_tree=False. The lxml '
         'entry points are replaced by a recording stub in the symbolic part.'),
 'C01': dict(
    cat='model_checking', ref='DESIGN.md section 4 (C01)',
    text='Partial. Symbolic part: (a) every leaf codec through the handler tables of each concrete protocol instance '
         '(XmlDocument, Soap11, Soap12) and base_from_element/unicode_from_element on an element stub; (b) routing: an element '
         'tree shaped like the message (nested object, wrapped and unwrapped arrays, XML attribute, sub_name alias, absent '
         'optional member) with symbolic leaf texts goes through the real deserialize/from_element/complex_from_element/'
         'array_from_element; z3 proves every field equals its sent value in order. Every path witness additionally travels '
         'through the complete real pipeline (lxml parser, SOAP envelope, user function, serializer) and the response is decoded '
         'by a reference decoder.',
    note='Element construction (to_parent), envelope (de)composition, the lxml validator, the Spyne client loopback and third-party '
         'clients are C/lxml code: they are exercised only concretely, once per path witness (that part is witness-driven testing, '
         'stated as such). One universe of classes; validator None and soft.'),
 'C06': dict(
    cat='model_checking', ref='DESIGN.md section 4 (C06)',
    text='Partial. The real schema emitters run on 25 constrained leaf types and 11 occurrence ranges; advertised base type, facets, '
         'minOccurs/maxOccurs and attribute use are read back from the generated nodes. For a symbolic leaf text / occurrence count z3 decides whether '
         'a reference model of XSD semantics and spyne soft validation can disagree, and whether a value admitted by the type can '
         'be written as text the schema rejects. Witnesses and counterexamples are judged by the real compiled lxml XMLSchema.',
    note='"The schema compiles" and multi-namespace import closure are concrete facts observed while building the harness universe, '
         'not solver results. ByteArray emission uses a fixed list of byte strings (binascii is C).'),
}

NOT_APPLICABLE = {
 'C07': 'quantifies over generated programs and interpreter hash seeds; the WSDL builder is lxml tree construction with no input-dependent arithmetic and the foreign client is a network toolkit - there is no input for a solver to range over (DESIGN.md section 5)',
 'C12': 'quantifies over OS thread schedules; neither CrossHair nor the symx engine has a symbolic scheduler for CPython threads and the shared state sits behind threading.Lock/WeakKeyDictionary/lxml (DESIGN.md section 5)',
}
PENDING = 'check not built yet in this revision (planned, see DESIGN.md section 4)'

def main():
    props = [json.loads(l)['id'] for l in open(os.path.join(HERE, 'properties.jsonl'))]
    checks = []
    for pid in props:
        c = CHECKS.get(pid)
        if not c:
            continue
        checks.append({
            'property_id': pid,
            'quick_cmd': './check %s --tier quick' % pid,
            'thorough_cmd': './check %s --tier thorough' % pid,
            'evidence_file': 'evidence/%s.json' % pid,
            'replay_cmd_template': './check %s --replay {path}' % pid,
            'engine': 'symx',
            'level_claimed': {'category': c['cat'], 'text': c['text'], 'design_ref': c['ref']},
            'level_note': c['note'],
            'technique': c.get('technique', 'solver-based bounded symbolic execution of the real Python source (AST-instrumented import, symbolic proxies, z3 per path) with native replay of every witness'),
        })
    na = []
    for pid in props:
        if pid in CHECKS:
            continue
        na.append({'property_id': pid, 'reason': NOT_APPLICABLE.get(pid, PENDING)})
    man = {
        'version': 1,
        'setup_cmd': '/venv/bin/pip install -q --no-index --find-links /opt/veriftools/wheels --target /verif/.deps z3-solver',
        'hooks': {'guard': 'SPYNE_VERIF', 'enable': 'none needed: instrumentation is applied at import time by /verif/symx/hook.py, /repo carries no hook code',
                  'baseline_off_cmd': 'cd /repo && /venv/bin/python -m pytest -ra -q -p no:cacheprovider --timeout=900 --continue-on-collection-errors',
                  'source_commits': [], 'add_only': True},
        'engines': [{'name': 'symx', 'path': 'symx/', 'serves_properties': sorted(CHECKS),
                     'kind_free_text': 'bounded symbolic executor for the real spyne source: AST-rewriting import hook, symbolic proxies (int/bool/char-list strings/datetime/decimal), DFS by re-execution, z3 obligations per path, native replay'}],
        'checks': checks,
        'not_applicable': na,
        'notes': 'fix: commits in /repo and recorded findings are listed in known_findings.json; DESIGN.md explains bounds and trusted base.',
    }
    json.dump(man, open(os.path.join(HERE, 'MANIFEST.json'), 'w'), indent=1)
    print('MANIFEST.json: %d checks, %d not_applicable' % (len(checks), len(na)))

if __name__ == '__main__':
    main()
